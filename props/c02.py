"""C02 - lookups and clone queries reflect exactly the nodes currently in the tree.

Two shard families:
  * the shared one-step driver (vlib/mutate.py) with unbounded symbolic int
    labels / explicit ids: after every step the index is compared with a walk;
  * data flavours: the node data are objects of the flavours the property
    names (str, int, tuple, frozen dataclass, DictWrapper, objects keyed by a
    calc_data_id callback), chosen by symbolic selectors from a pool of three
    (every clone pattern); one symbolic mutation (remove / set_data on a single
    node or a clone group / add / remove_children) is applied and every lookup
    by data object, data_id and node_id, the clone queries and `in` are
    compared with a walk of the tree.
"""

from dataclasses import dataclass

from vlib import build as B
from vlib import mutate as MU
from vlib import mutprops as MP
from vlib.build import build, shape_str, shapes_upto

ID = "C02"
FUNCTIONS = MP.FUNCTIONS + ["Tree.__contains__", "Tree.__getitem__", "Node.get_clones", "Node.is_clone", "Tree.count_unique", "DictWrapper.__hash__", "DictWrapper.__eq__"]
STUBS = MP.STUBS
ASSUMPTIONS = MP.ASSUMPTIONS + [
    "flavour shards: data objects come from a pool of three per flavour; selectors are symbolic (all clone patterns), the body runs concretely",
]
TIMEOUTS = {"quick": (600, 30), "thorough": (2400, 60)}
FLAVOURS = ["str", "int", "tuple", "dataclass", "dictwrapper", "keyed"]


@dataclass(frozen=True)
class Item:
    name: str
    n: int


class Keyed:
    def __init__(self, key):
        self.key = key


def BOUNDS(tier):
    b = MP.bounds(tier)
    b["flavour_shards"] = {"flavours": FLAVOURS, "max_nodes": 3 if tier == "quick" else 4, "mutations": ["none", "remove", "remove_children", "set_data(with_clones=False)", "set_data(with_clones=True)", "add"]}
    return b


def shards(tier):
    out = MP.make_shards(tier)
    n = 3 if tier == "quick" else 4
    for fl in FLAVOURS:
        for sh in shapes_upto(n, 1):
            if B.max_siblings(sh) > 3:
                continue
            out.append({"name": "flavour-%s-%s" % (fl, shape_str(sh)), "kind": "flavour", "fl": fl, "shape": list(sh)})
    return out


def params(desc):
    if desc.get("kind") == "flavour":
        n = len(desc["shape"])
        return [("l%d" % i, "sel", 0, 2) for i in range(n)] + [("m", "sel", 0, 5), ("j", "sel", 0, n - 1), ("k", "sel", 0, 3)]
    return MU.params(desc)


def pool(fl):
    from nutree.common import DictWrapper

    if fl == "str":
        return ["a", "b", "c", "d"]
    if fl == "int":
        return [11, 12, 13, 14]
    if fl == "tuple":
        return [("a", 1), ("a", 2), ("b", 1), ("c", 3)]
    if fl == "dataclass":
        return [Item("a", 1), Item("a", 2), Item("b", 1), Item("c", 3)]
    if fl == "dictwrapper":
        ds = [{"k": 1}, {"k": 1}, {"k": 2}, {"k": 3}]  # equal content, distinct dicts: not clones
        return [DictWrapper(d) for d in ds]
    return [Keyed(1), Keyed(2), Keyed(3), Keyed(4)]


def body(ctx, desc, x):
    if desc.get("kind") != "flavour":
        return MP.c02_oracle(ctx, desc, x)
    fl = desc["fl"]
    shape = tuple(desc["shape"])
    n = len(shape)
    P = pool(fl)
    labels = [P[x["l%d" % i]] for i in range(n)]
    calc = (lambda tree, d: d.key) if fl == "keyed" else None
    try:
        tree, nodes = build(shape, labels, calc=calc)
    except Exception:  # noqa: BLE001
        return ""
    ctx.mark()
    m, j, k = x["m"], x["j"], x["k"]
    try:
        if m == 1:
            nodes[j].remove()
        elif m == 2:
            nodes[j].remove_children()
        elif m == 3:
            nodes[j].set_data(P[k], with_clones=False)
        elif m == 4:
            nodes[j].set_data(P[k], with_clones=True)
        elif m == 5:
            nodes[j].add(P[k])
    except Exception:  # noqa: BLE001 - refused (uniqueness): the index must still be exact
        pass
    c = B.wf(tree)
    if c:
        return ""  # C01's subject
    w = [nd for nd, _ in B.walk(tree)]
    did = (lambda d: d.key) if fl == "keyed" else hash
    probe_ids = [did(p) for p in P]
    c = B.index_exact(tree, probe_ids)
    if c:
        return "flavour:" + c
    for p in P:
        expect = [nd for nd in w if nd.data_id == did(p)]
        got = tree.find_all(p)
        if not B._same_members(got, expect):
            return "flavour:find_all(data)"
        f = tree.find_first(p)
        if (f is None) != (not expect) or (f is not None and not any(f is e for e in expect)):
            return "flavour:find_first(data)"
        if (p in tree) != bool(expect):
            return "flavour:contains"
        try:
            r = tree[p]
            if len(expect) != 1 or r is not expect[0]:
                return "flavour:getitem"
        except KeyError:
            if expect:
                return "flavour:getitem-keyerror"
        except Exception as e:  # noqa: BLE001
            if type(e).__name__ != "AmbiguousMatchError" or len(expect) < 2:
                return "flavour:getitem-%s" % type(e).__name__
    for nd in w:
        # data_id rule: callback applied to the data, else hash(data)
        if nd.data_id != did(nd.data):
            return "flavour:data_id-rule"
        if tree.find_first(node_id=nd.node_id) is not nd:
            return "flavour:find_first(node_id)"
    return ""
