"""C02 - lookups and clone queries reflect exactly the nodes in the tree (shared one-step driver, see vlib/mutate.py)."""

from vlib import mutate as MU
from vlib import mutprops as MP

ID = "C02"
FUNCTIONS = MP.FUNCTIONS
STUBS = MP.STUBS
ASSUMPTIONS = MP.ASSUMPTIONS
TIMEOUTS = {"quick": (300, 30), "thorough": (1200, 60)}
BOUNDS = MP.bounds
params = MU.params


def shards(tier):
    return MP.make_shards(tier)


body = MP.c02_oracle
