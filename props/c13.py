"""C13 - refused or failing operations do not corrupt the tree.

Part A (refusals): the shared one-step driver (vlib/mutate.py); whenever the
call raised, the observation must equal the pre-state and the C01-C03
predicates must hold.
Part B (callback faults, M-cb): per operation that takes a user callback and
per shape, the k-th invocation of the callback raises Boom (k symbolic); the
tree must satisfy C01-C03 afterwards and read-only operations must leave it
unchanged.
"""

import io

from vlib import build as B
from vlib import mutate as MU
from vlib import mutprops as MP
from vlib.build import build, shape_str, shapes_upto
from vlib.stubs import install_json_stub

ID = "C13"
FUNCTIONS = MP.FUNCTIONS + [
    "Tree.calc_data_id", "Node.filter", "Node._add_filtered", "Node.sort_children", "Node.visit", "Node._search",
    "Tree.save", "Tree.load", "Tree.to_dict_list", "Tree.from_dict", "dot.node_to_dot", "common.call_mapper", "common.call_predicate",
]
STUBS = MP.STUBS + ["M-cb (callback wrapper raising Boom at the k-th invocation)", "S-json"]
ASSUMPTIONS = MP.ASSUMPTIONS + [
    "Part B: labels are concrete distinct strings, the fault position k is symbolic in 0..2n+2 (k beyond the number of invocations = no fault); one faulting callback per run",
]
TIMEOUTS = {"quick": (300, 30), "thorough": (1200, 60)}
params_A = MU.params
TWIN_REQUIRED = False  # many shards cannot be refused at all; the evidence counts the twins reached
FAULT_OPS = [
    "add_calc", "set_data_calc", "find_calc", "filter", "filtered", "copy_pred", "find_match", "sort_key", "visit",
    "save_mapper", "load_mapper", "to_dict_list_mapper", "from_dict_mapper", "to_dot_mappers",
]
READ_ONLY = {"find_calc", "filtered", "copy_pred", "find_match", "visit", "save_mapper", "load_mapper", "to_dict_list_mapper", "from_dict_mapper", "to_dot_mappers"}


def BOUNDS(tier):
    b = MP.bounds(tier)
    b["fault_ops"] = FAULT_OPS
    b["fault_shapes_max_nodes"] = 3 if tier == "quick" else 4
    return b


def shards(tier):
    out = MP.make_shards(tier)
    n = 3 if tier == "quick" else 4
    for op in FAULT_OPS:
        for sh in shapes_upto(n, 1):
            out.append({"name": "fault-%s-%s" % (op, shape_str(sh)), "kind": "fault", "op": op, "shape": list(sh)})
    return out


def params(desc):
    if desc.get("kind") == "fault":
        n = len(desc["shape"])
        return [("k", "sel", 0, 2 * n + 2), ("j", "sel", 0, n - 1)]
    return params_A(desc)


def setup_symbolic(desc):
    if desc.get("kind") == "fault":
        install_json_stub()


class Boom(Exception):
    pass


class Faulty:
    """Wraps a callback; the k-th invocation (1-based) raises Boom."""

    def __init__(self, fn, k):
        self.fn, self.k, self.calls, self.armed = fn, k, 0, False

    def __call__(self, *a, **kw):
        if self.armed:
            self.calls += 1
            if self.calls == self.k:
                raise Boom()
        return self.fn(*a, **kw)


def body(ctx, desc, x):
    if desc.get("kind") != "fault":
        return MP.c13_oracle(ctx, desc, x)
    from nutree import Tree

    shape = tuple(desc["shape"])
    n = len(shape)
    op = desc["op"]
    k, j = x["k"], x["j"]
    labels = ["n%d" % i for i in range(n)]
    calc = Faulty(lambda tree, data: "id:" + data if isinstance(data, str) else hash(data), k)
    uses_calc = op in ("add_calc", "set_data_calc", "find_calc")
    tree, nodes = build(shape, labels, calc=calc if uses_calc else None)
    obs0 = B.observe(tree, nodes)
    cb = Faulty(lambda *a: None, k)
    boom = False
    from vlib import ser

    try:
        if op == "add_calc":
            calc.armed = True
            nodes[j].add("new")
        elif op == "set_data_calc":
            calc.armed = True
            nodes[j].set_data("renamed")
        elif op == "find_calc":
            calc.armed = True
            tree.find_all("n0")
            tree.find_first("n1")
            "n0" in tree
        elif op in ("filter", "filtered", "copy_pred"):
            cb.fn = lambda nd: int(nd.data[1:]) % 2 == 0
            cb.armed = True
            if op == "filter":
                tree.filter(cb)
            elif op == "filtered":
                tree.filtered(cb)
            else:
                nodes[j].copy(predicate=cb)
        elif op == "find_match":
            cb.fn = lambda nd: nd.data.endswith("1")
            cb.armed = True
            tree.find_all(match=cb)
            nodes[j].find_first(match=cb)
        elif op == "sort_key":
            cb.fn = lambda nd: -int(nd.data[1:])
            cb.armed = True
            tree.sort(key=cb, deep=True)
        elif op == "visit":
            cb.fn = lambda nd, memo: None
            cb.armed = True
            tree.visit(cb)
            nodes[j].visit(cb, add_self=True)
        elif op == "save_mapper":
            cb.fn = lambda nd, data: data
            cb.armed = True
            tree2, _ = build(shape, [("t", i) for i in range(n)])  # non-str data: the mapper is called
            obs2 = B.observe(tree2, _)
            try:
                tree2.save(ser.open_channel(ctx), mapper=cb)
            finally:
                if B.obs_equal(B.observe(tree2, _), obs2) or B.inv_all(tree2):
                    return "fault:save:tree-changed"
        elif op == "load_mapper":
            tree2, _ = build(shape, [("t", i) for i in range(n)])
            fp = ser.open_channel(ctx)
            tree2.save(fp, mapper=lambda nd, data: {"v": nd.data[1]})
            ser.rewind(fp)
            cb.fn = lambda parent, data: ("t", data["v"])
            cb.armed = True
            t3 = Tree.load(fp, mapper=cb)
            if B.inv_all(t3):
                return "fault:load:result-corrupt"
        elif op == "to_dict_list_mapper":
            cb.fn = lambda nd, data: data
            cb.armed = True
            tree.to_dict_list(mapper=cb)
        elif op == "from_dict_mapper":
            doc = tree.to_dict_list()
            cb.fn = lambda parent, item: item["data"]
            cb.armed = True
            t3 = Tree.from_dict(doc, mapper=cb)
            if B.inv_all(t3):
                return "fault:from_dict:result-corrupt"
        elif op == "to_dot_mappers":
            cb.fn = lambda nd, data: None
            cb.armed = True
            list(tree.to_dot(node_mapper=cb, edge_mapper=cb))
    except Boom:
        boom = True
    if boom:
        ctx.mark()
    c = B.inv_all(tree)
    if c:
        return "fault:%s:%s" % (op, c)
    if op in READ_ONLY or not boom and op in ("find_calc",):
        c = B.obs_equal(B.observe(tree, nodes), obs0)
        if c:
            return "fault:%s:read-only-op-changed-tree:%s" % (op, c)
    if boom and op in ("add_calc", "set_data_calc"):
        # the id callback runs before anything is touched
        c = B.obs_equal(B.observe(tree, nodes), obs0)
        if c:
            return "fault:%s:changed:%s" % (op, c)
    return ""
