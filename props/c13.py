"""C13 - refused or failing operations do not corrupt the tree (shared one-step driver, see vlib/mutate.py)."""

from vlib import mutate as MU
from vlib import mutprops as MP

ID = "C13"
FUNCTIONS = MP.FUNCTIONS
STUBS = MP.STUBS
ASSUMPTIONS = MP.ASSUMPTIONS
TIMEOUTS = {"quick": (300, 30), "thorough": (1200, 60)}
BOUNDS = MP.bounds
params = MU.params
TWIN_REQUIRED = False  # many shards cannot be refused at all; the evidence counts the twins reached


def shards(tier):
    return MP.make_shards(tier)


body = MP.c13_oracle
