"""C09 - searches return exactly the matching nodes, in order, within the limit.

Per shape: labels are symbolic selectors into a small name pool (clones
allowed), the limit k is symbolic; on every path every start (tree, each node),
every pattern/predicate of the pool and add_self on/off are compared with a
reference pre-order filter using Python's `re` on the concrete names.  Index
access `tree[key]` is checked for every key kind.
"""

import re

from vlib.build import build, descendants_of, max_siblings, shape_str, shapes_upto

ID = "C09"
FUNCTIONS = [
    "Node._search", "Node.find_all", "Node.find_first", "Tree.find_all", "Tree.find_first",
    "Tree.__getitem__", "Tree.__contains__", "Tree.__delitem__", "Tree.calc_data_id",
]
STUBS = ["S-dict", "S-hash", "S-fmt"]
ASSUMPTIONS = [
    "names come from the pool %r; patterns from the pool below; every clone pattern over the pool is covered" % (["a", "ab", "b"],),
    "k ranges over None and 1..n+1 (values above the number of matches behave alike)",
    "node_ids are explicit (1000+i) so that tree[node_id] can be asked deterministically",
]
TIMEOUTS = {"quick": (600, 30), "thorough": (3000, 60)}
POOL = ["a", "ab", "b"]
PATTERNS = ["a", "a.*", ".*b", "[ab]+", "x", "a|b", "b|a.", ("A.*", re.IGNORECASE), ("B|A", re.IGNORECASE), "pred:len2", "pred:never"]


def BOUNDS(tier):
    n = 4 if tier == "quick" else 5
    return {"max_nodes": n, "name_pool": POOL, "patterns": [str(p) for p in PATTERNS], "k": "None, 1..n+1"}


def shards(tier):
    from vlib.mutprops import topo_orders

    n = 4 if tier == "quick" else 5
    out = [{"name": "search-%s" % shape_str(sh), "shape": list(sh)} for sh in shapes_upto(n, 1) if max_siblings(sh) <= len(POOL)]
    # nodes that share an explicit data_id but carry different data (pattern searches go by *name*, per node)
    out += [{"name": "search-sid-%s" % shape_str(sh), "shape": list(sh), "sid": True} for sh in shapes_upto(min(n, 4), 2) if max_siblings(sh) <= len(POOL)]
    # trees whose creation order differs from the document order (results must follow the tree)
    for sh in shapes_upto(3, 3):
        for order in topo_orders(sh)[1:3 if tier == "quick" else None]:
            out.append({"name": "search-%s-o%s" % (shape_str(sh), "".join(map(str, order))), "shape": list(sh), "order": list(order)})
    # two clones below one start node, the later one (in document order) created first
    four = shapes_upto(4, 4)
    for sh in four:
        if max_siblings(sh) > len(POOL):
            continue
        rev = [o for o in topo_orders(sh) if o != tuple(range(4))]
        rev.sort(key=lambda o: list(o).index(3))  # orders that create the last node early come first
        for order in rev[:2 if tier == "quick" else None]:
            out.append({"name": "search-%s-o%s" % (shape_str(sh), "".join(map(str, order))), "shape": list(sh), "order": list(order), "cost": 30})
    return out


def params(desc):
    n = len(desc["shape"])
    sid = [("d%d" % i, "sel", 0, 1) for i in range(n)] if desc.get("sid") else []
    return [("l%d" % i, "sel", 0, len(POOL) - 1) for i in range(n)] + sid + [("k", "sel", 0, n + 1)]


def _ref_match(pat, name):
    if pat == "pred:len2":
        return len(name) == 2
    if pat == "pred:never":
        return False
    if isinstance(pat, tuple):
        return re.fullmatch(pat[0], name, pat[1]) is not None
    return re.fullmatch(pat, name) is not None


def _arg(pat):
    if pat == "pred:len2":
        return lambda n: len(n.name) == 2
    if pat == "pred:never":
        return lambda n: False
    return pat


def _same(a, b):
    return len(a) == len(b) and all(x is y for x, y in zip(a, b))


def body(ctx, desc, x):
    from nutree import AmbiguousMatchError, Tree

    shape = tuple(desc["shape"])
    n = len(shape)
    labels = [POOL[int(x["l%d" % i])] for i in range(n)]
    k = int(x["k"])
    kk = None if k == 0 else k
    ids = None
    if desc.get("sid"):
        ids = ["shared-id" if int(x["d%d" % i]) else None for i in range(n)]
    try:
        tree, nodes = build(shape, labels, ids=ids, node_ids=[1000 + i for i in range(n)], order=desc.get("order"))
    except Exception:  # noqa: BLE001 - two siblings with one name / one data_id: not constructible
        return ""
    ctx.mark()
    names = labels

    for pat in PATTERNS:
        arg = _arg(pat)
        for s in range(-1, n):
            for add_self in (False, True):
                if s < 0:
                    if add_self:
                        continue
                    branch = list(range(n))
                else:
                    branch = ([s] if add_self else []) + descendants_of(shape, s)
                ref = [nodes[i] for i in branch if _ref_match(pat, names[i])]
                want = ref if kk is None else ref[:kk]
                if s < 0:
                    got = tree.find_all(match=arg, max_results=kk)
                    first = tree.find_first(match=arg)
                    alias = tree.find(match=arg)
                else:
                    got = nodes[s].find_all(match=arg, add_self=add_self, max_results=kk)
                    first = alias = None
                    if not add_self:
                        first = nodes[s].find_first(match=arg)
                        alias = nodes[s].find(match=arg)
                if not _same(got, want):
                    return "find_all(match):%s" % ("limit" if kk and len(ref) > kk else "result")
                if s < 0 or not add_self:
                    if first is not (ref[0] if ref else None) or alias is not first:
                        return "find_first(match)"

    if ids is not None:
        return ""  # explicit shared ids: the data/data_id lookups below assume id == calc_data_id(name)
    # lookups by data / data_id: index path (tree) and scan path (node)
    for name in POOL + ["zz"]:
        did = tree.calc_data_id(name)
        allm = [nodes[i] for i in range(n) if names[i] == name]
        for how in ("data", "data_id"):
            kw = {"data_id": did} if how == "data_id" else {}
            a = (name,) if how == "data" else ()
            got = tree.find_all(*a, max_results=kk, **kw)
            lim = len(allm) if kk is None else min(kk, len(allm))
            if len(got) != lim:
                return "tree.find_all(%s):limit" % how
            for g in got:
                if len([m for m in allm if m is g]) != 1 or len([h for h in got if h is g]) != 1:
                    return "tree.find_all(%s):result" % how
            f = tree.find_first(*a, **kw)
            if (f is None) != (not allm) or (f is not None and not any(f is m for m in allm)):
                return "tree.find_first(%s)" % how
            for s in range(n):
                for add_self in (False, True):
                    branch = ([s] if add_self else []) + descendants_of(shape, s)
                    ref = [nodes[i] for i in branch if names[i] == name]
                    want = ref if kk is None else ref[:kk]
                    got = nodes[s].find_all(*a, add_self=add_self, max_results=kk, **kw)
                    if not _same(got, want):
                        return "node.find_all(%s):%s" % (how, "limit" if kk and len(ref) > kk else "result")
                if nodes[s].find_first(*a, **kw) is not ([nodes[i] for i in descendants_of(shape, s) if names[i] == name] + [None])[0]:
                    return "node.find_first(%s)" % how
        if (name in tree) != bool(allm):
            return "contains"
        # index access
        for key in (name, did):
            try:
                r = tree[key]
                if len(allm) != 1 or r is not allm[0]:
                    return "getitem:result"
            except AmbiguousMatchError:
                if len(allm) < 2:
                    return "getitem:ambiguous"
            except KeyError:
                if allm:
                    return "getitem:keyerror"
    for i in range(n):
        if tree[1000 + i] is not nodes[i]:
            return "getitem:node_id"
    try:
        tree[nodes[0]]
        return "getitem:node-accepted"
    except ValueError:
        pass
    # resolution order node_id -> data_id -> data on a dedicated tree
    t2 = Tree("o")
    a = t2.add("x", data_id=77)
    b = t2.add("y", node_id=77)
    c = t2.add("z", data_id="y")
    if t2[77] is not b:
        return "getitem:order:node_id-first"
    if t2["y"] is not c:
        return "getitem:order:data_id-before-data"
    # del tree[key] removes exactly the resolved node
    uniq = [i for i in range(n) if len([j for j in range(n) if names[j] == names[i]]) == 1]
    if uniq:
        i = uniq[-1]
        gone = [i] + descendants_of(shape, i)
        del tree[names[i]]
        left = [nd for j, nd in enumerate(nodes) if j not in gone]
        if not _same(list(tree), left) or tree.count != len(left):
            return "delitem"
    try:
        del tree["zz"]
        return "delitem:absent-accepted"
    except KeyError:
        pass
    return ""
