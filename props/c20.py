"""C20 - build_random_tree produces a tree that conforms to its structure definition.

S-rand: the module-level `random` of nutree.tree_generator is replaced by a
tape whose every draw is a solver-chosen value within the documented contract
of the random-module function that was called (random() in {0.0, 0.5, 0.99},
randrange(a, b) any value of the range, uniform(a, b) in {a, midpoint, b},
sample(seq, 1) any element).  Per structure definition (bound parameter) and
tree class the generated tree is checked against the definition.
"""

from datetime import date, datetime, timedelta, timezone

ID = "C20"
FUNCTIONS = [
    "tree_generator.build_random_tree", "tree_generator._make_tree", "tree_generator._merge_specs",
    "tree_generator._resolve_random", "tree_generator._resolve_random_dict", "tree_generator.Randomizer._skip_value",
    "tree_generator.RangeRandomizer.generate", "tree_generator.DateRangeRandomizer.generate",
    "tree_generator.ValueRandomizer.generate", "tree_generator.SparseBoolRandomizer", "tree_generator.SampleRandomizer.generate",
    "Tree.build_random_tree", "TypedTree.add_child", "Node.add_child",
]
STUBS = ["S-dict", "S-hash", "S-fmt", "S-rand (tape of solver-chosen draws within the random module's contracts)"]
ASSUMPTIONS = [
    "random(): one of {0.0, 0.5, 0.99}; randrange(a, b): every value for b - a <= 6; uniform(a, b): one of {a, (a+b)/2, b}; sample(seq, 1, counts=): every element",
    "at most 10 draws per definition (definitions needing more are outside the claim)",
    "node data are instances of a DictWrapper subclass with a deterministic hash (the stock DictWrapper hashes by address); the stock class is covered by the native pass",
    "text randomizers (fabulist) are outside the symbolic claim",
]
TIMEOUTS = {"quick": (600, 120), "thorough": (3000, 240)}
NDRAWS = 10


def _defs():
    from nutree.common import DictWrapper
    from nutree.tree_generator import DateRangeRandomizer, RangeRandomizer, SampleRandomizer, SparseBoolRandomizer, ValueRandomizer

    class DW(DictWrapper):
        seq = [0]

        def __init__(self, dict_inst=None, **values):
            super().__init__(dict_inst, **values)
            DW.seq[0] += 1
            self._h = 1000 + DW.seq[0]

        def __hash__(self):
            return self._h

    def cb(data):
        data["cb"] = len(data)

    d = {}
    d["fixed"] = {
        "name": "fixed",
        "types": {"*": {":factory": DW, "g": "G"}, "a": {"icon": "ia", "t": "a"}, "b": {"icon": "ib", "t": "b"}},
        "relations": {
            "__root__": {"a": {":count": 2, "title": "A{idx}", "h": "{hier_idx}"}},
            "a": {"b": {":count": 2, "title": "B{idx}/{hier_idx}", "icon": "override"}},
        },
    }
    d["range"] = {
        "name": "range",
        "types": {"*": {":factory": DW}, "a": {"t": "a"}, "b": {"t": "b"}, "c": {"t": "c"}},
        "relations": {
            "__root__": {"a": {":count": RangeRandomizer(1, 3), "x": RangeRandomizer(10, 13), "title": "{hier_idx}"}},
            "a": {"b": {":count": RangeRandomizer(0, 2), "y": RangeRandomizer(1.0, 2.0)}, "c": {":count": 1, "title": "c{idx}"}},
        },
    }
    d["prob"] = {
        "name": "prob",
        "types": {"*": {":factory": DW, "t": "a"}},
        "relations": {
            "__root__": {
                "a": {
                    ":count": 2,
                    "v": ValueRandomizer("val", probability=0.5),
                    "s": SparseBoolRandomizer(probability=0.5),
                    "r": RangeRandomizer(0, 2, probability=0.5),
                    "always": ValueRandomizer("x", probability=1.0),
                }
            }
        },
    }
    d["sample"] = {
        "name": "sample",
        "types": {"*": {":factory": DW, "t": "a"}},
        "relations": {
            "__root__": {
                "a": {
                    ":count": 1,
                    "pick": SampleRandomizer(["p", "q{idx}", "r"]),
                    "w": SampleRandomizer([1, 2], counts=[1, 2]),
                    "d": DateRangeRandomizer(date(2020, 1, 1), 3, as_js_stamp=False),
                    "j": DateRangeRandomizer(date(2020, 1, 1), date(2020, 1, 3)),
                    ":callback": cb,
                }
            }
        },
    }
    d["probcount"] = {
        "name": "probcount",
        "types": {"*": {":factory": DW, "t": "a"}},
        "relations": {
            "__root__": {
                "a": {
                    ":count": RangeRandomizer(1, 3, probability=0.5, none_value=0),
                    "pick": SampleRandomizer(["p", "q{idx}"]),
                    "title": "n{hier_idx}",
                }
            }
        },
    }
    d["shared"] = {  # one node type below two parent types with different relation specs
        "name": "shared",
        "types": {"*": {":factory": DW}, "a": {"t": "a"}, "b": {"t": "b"}, "note": {"t": "note", "icon": "n"}},
        "relations": {
            "__root__": {"a": {":count": 1}, "b": {":count": 1}},
            "a": {"note": {":count": 1, "title": "of-a {hier_idx}"}},
            "b": {"note": {":count": 2, "title": "of-b {idx}", "x": RangeRandomizer(0, 2)}},
        },
    }
    d["deep"] = {
        "name": "deep",
        "types": {"a": {":factory": DW, "t": "a"}, "b": {":factory": DW, "t": "b"}, "c": {":factory": DW, "t": "c"}},
        "relations": {
            "__root__": {"a": {":count": 1, "title": "{hier_idx}"}},
            "a": {"b": {":count": RangeRandomizer(1, 3), "title": "{hier_idx}"}},
            "b": {"c": {":count": RangeRandomizer(0, 2), "title": "{hier_idx}", "z": RangeRandomizer(5, 7, probability=0.5)}},
        },
    }
    return d, DW


def BOUNDS(tier):
    return {"definitions": ["fixed", "range", "prob", "sample", "probcount", "shared", "deep"], "classes": ["Tree", "TypedTree"], "draws": NDRAWS}


def shards(tier):
    out = []
    for name in ("fixed", "range", "prob", "sample", "probcount", "shared", "deep"):
        for cls in ("Tree", "TypedTree"):
            out.append({"name": "gen-%s-%s" % (name, cls), "def": name, "cls": cls, "cost": 50 if name in ("deep", "range") else 0})
    return out


def params(desc):
    return [("t%d" % i, "int", 0, 5) for i in range(NDRAWS)]


class TapeExhausted(Exception):
    pass


class Tape:
    def __init__(self, x, native):
        self.x = x
        self.i = 0
        self.native = native
        self.log = []

    def _draw(self, m):
        """solver-chosen value in [0, m)"""
        if self.i >= NDRAWS:
            raise TapeExhausted()
        v = self.x["t%d" % self.i]
        self.i += 1
        lo, hi = 0, m - 1  # values above m - 1 fall into the last bucket
        while lo < hi:  # bisection keeps the draw symbolic until it is used
            mid = (lo + hi) // 2
            if v <= mid:
                hi = mid
            else:
                lo = mid + 1
        return lo

    def random(self):
        r = [0.0, 0.5, 0.99][self._draw(3)]
        self.log.append(("random", r))
        return r

    def randrange(self, a, b=None):
        if b is None:
            a, b = 0, a
        if b - a > 6:
            raise TapeExhausted()
        r = a + self._draw(b - a)
        self.log.append(("randrange", a, b, r))
        return r

    def uniform(self, a, b):
        r = [a, (a + b) / 2, b][self._draw(3)]
        self.log.append(("uniform", a, b, r))
        return r

    def sample(self, seq, k, counts=None):
        assert k == 1
        r = seq[self._draw(len(seq))]
        self.log.append(("sample", r))
        return [r]


def body(ctx, desc, x):
    import nutree.tree_generator as tg
    from nutree import Tree
    from nutree.tree_generator import Randomizer, RangeRandomizer
    from nutree.typed_tree import TypedTree

    defs, DW = _defs()
    DW.seq[0] = 0
    sd = defs[desc["def"]]
    cls = TypedTree if desc["cls"] == "TypedTree" else Tree
    tape = Tape(x, ctx.native)
    saved = tg.random
    tg.random = tape
    try:
        tree = cls.build_random_tree(sd)
    except TapeExhausted:
        return ""  # more draws than the bound: outside the claim
    finally:
        tg.random = saved
    ctx.mark()
    if tree.__class__ is not cls:
        return "class"
    if tree.name != sd["name"]:
        return "name"
    types, rels = sd.get("types", {}), sd["relations"]

    def merged(t, spec):
        m = dict(types.get("*", {}))
        m.update(types.get(t, {}))
        m.update(spec)
        return m

    def check(parent_children, ptype, prefix):
        specs = rels.get(ptype, {})
        pos = 0
        for t, spec in specs.items():
            m = merged(t, spec)
            cnt = m.get(":count", 1)
            # children of this relation are the next run of nodes of type t
            run = []
            while pos < len(parent_children) and _type_of(parent_children[pos]) == t:
                run.append(parent_children[pos])
                pos += 1
            if isinstance(cnt, Randomizer):
                lo, hi = cnt.min, cnt.max
                if not (lo <= len(run) < hi) and not (cnt.probability < 1.0 and len(run) == (cnt.none_value or 0)):
                    return "count-out-of-range"
            elif len(run) != cnt:
                return "count"
            for i, nd in enumerate(run, 1):
                hp = "%s.%d" % (prefix, i) if prefix else "%d" % i
                if cls is TypedTree:
                    if nd.kind != t:
                        return "kind"
                elif hasattr(nd, "kind"):
                    return "plain-node-has-kind"
                fac = m.get(":factory")
                if fac is not None and not isinstance(nd.data, fac):
                    return "factory"
                dd = nd.data._dict
                for k, v in m.items():
                    if k.startswith(":"):
                        if k in dd:
                            return "colon-key-in-data"
                        continue
                    r = _check_attr(k, v, dd, i, hp)
                    if r:
                        return r
                extra = [k for k in dd if k not in m and k != "cb"]
                if extra:
                    return "extra-attr"
                if m.get(":callback") is not None and "cb" not in dd:
                    return "callback-not-called"
                if m.get(":callback") is None and "cb" in dd:
                    return "callback-unexpected"
                r = check(nd.children, t, hp)
                if r:
                    return r
        if pos != len(parent_children):
            return "child-of-unlisted-type"
        return ""

    def _type_of(nd):
        return nd.data._dict.get("t") if cls is not TypedTree else nd.kind

    r = check(tree.children, "__root__", "")
    if r:
        return r
    from vlib import build as B

    return B.wf(tree)


def _check_attr(k, v, dd, i, hp):
    from nutree.tree_generator import DateRangeRandomizer, RangeRandomizer, SampleRandomizer, SparseBoolRandomizer, ValueRandomizer

    macros = {"idx": i, "hier_idx": hp}
    if isinstance(v, RangeRandomizer):
        if k not in dd:
            return "" if v.probability < 1.0 and v.none_value is None else "attr-missing:" + k
        val = dd[k]
        if v.probability < 1.0 and val == v.none_value:
            return ""
        if v.is_float:
            return "" if v.min <= val <= v.max else "range:" + k
        return "" if (v.min <= val < v.max and isinstance(val, int)) else "range:" + k
    if isinstance(v, SparseBoolRandomizer):
        if k not in dd:
            return "" if v.probability < 1.0 else "attr-missing:" + k
        return "" if dd[k] is True else "sparse-bool:" + k
    if isinstance(v, ValueRandomizer):
        if k not in dd:
            return "" if v.probability < 1.0 else "attr-missing:" + k
        return "" if dd[k] == v.value else "value:" + k
    if isinstance(v, SampleRandomizer):
        if k not in dd:
            return "" if v.probability < 1.0 else "attr-missing:" + k
        opts = [o.format(**macros) if isinstance(o, str) else o for o in v.sample_list]
        return "" if dd[k] in opts else "sample:" + k
    if isinstance(v, DateRangeRandomizer):
        if k not in dd:
            return "" if v.probability < 1.0 else "attr-missing:" + k
        val = dd[k]
        days = [v.min + timedelta(days=o) for o in range(v.delta_days)]
        if v.as_js_stamp:
            ok = [(datetime(d.year, d.month, d.day, tzinfo=timezone.utc).timestamp() + 86400) * 1000.0 for d in days]
            return "" if val in ok else "date-stamp:" + k
        return "" if val in days else "date:" + k
    if k not in dd:
        return "attr-missing:" + k
    want = v.format(**macros) if isinstance(v, str) else v
    return "" if dd[k] == want else "attr:" + k
