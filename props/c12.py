"""C12 - the native file format follows its documented layout, both ways.

Writer side: the structure Tree.save() hands to json.dump is compared with an
independent encoder written from ug_serialize.rst, for the same symbolic
trees/options as C05.  Reader side: documents produced by that encoder (also
with every clone spelled out), the user guide's literal examples and malformed
headers are loaded and compared with the tree they describe / must be rejected.
"""

from vlib import build as B
from vlib import ser
from vlib.build import shape_str, shapes_upto
from vlib.stubs import install_json_stub

ID = "C12"
FUNCTIONS = [
    "Tree.save", "Tree.load", "Tree._from_list", "Tree._uncompress_entry", "Node.to_list_iter", "Node._make_list_entry",
    "Node._compress_entry", "TypedTree.save", "TypedTree._from_list", "TypedNode._make_list_entry", "common.get_version",
]
STUBS = ["S-dict", "S-hash", "S-fmt", "S-json (channel storing the normalised document)"]
ASSUMPTIONS = [
    "names from the pool %r, object keys 1..3, explicit ids 101..102, kinds from %r" % (ser.POOL, ser.KINDS),
    "the user guide's examples are transcribed (the objects example's trailing comma removed)",
    "JSON text <-> structure is the json module's job (real json in the native pass)",
]
TIMEOUTS = {"quick": (600, 60), "thorough": (3000, 120)}


def BOUNDS(tier):
    n = 4 if tier == "quick" else 5
    return {"max_nodes": n, "flavours": ser.FLAVOURS, "key_map": 3, "value_map": 3, "malformed_headers": 6, "user_guide_examples": 3}


def shards(tier):
    n = 4 if tier == "quick" else 5
    out = []
    for fl in ser.FLAVOURS:
        nn = n if fl == "str" else n - 1
        for sh in shapes_upto(nn, 0):
            if B.max_siblings(sh) > len(ser.POOL):
                continue  # not constructible: siblings need distinct names
            out.append({"name": "layout-%s-%s" % (fl, shape_str(sh)), "kind": "layout", "fl": fl, "shape": list(sh)})
    out.append({"name": "reader-examples", "kind": "examples", "no_twin": False})
    return out


def params(desc):
    if desc["kind"] == "examples":
        return [("bad", "sel", 0, 6), ("which", "sel", 0, 2)]
    return ser.params(desc)


def setup_symbolic(desc):
    install_json_stub()


UG_PLAIN = {
    "meta": {"$generator": "nutree/0.5.1", "$format_version": "1.0", "foo": "bar"},
    "nodes": [[0, "A"], [1, "a1"], [2, "a11"], [2, "a12"], [1, "a2"], [0, "B"], [6, 3], [6, "b1"], [8, "b11"]],
}
UG_PLAIN_TREE = [(-1, "A"), (0, "a1"), (1, "a11"), (1, "a12"), (0, "a2"), (-1, "B"), (5, "a11"), (5, "b1"), (7, "b11")]
UG_OBJ_NODES = [
    [0, {"t": 0, "n": "Development"}],
    [1, {"t": 1, "n": "Alice", "a": 23, "g": "{123-456}"}],
    [1, {"t": 1, "n": "Bob", "a": 32, "g": "{234-456}"}],
    [1, {"t": 1, "n": "Charleen", "a": 43, "g": "{345-456}"}],
    [0, {"t": 0, "n": "Marketing"}],
    [5, 4],
    [5, {"t": 1, "n": "Dave", "a": 54, "g": "{456-456}"}],
]
UG_OBJ = {
    "meta": {
        "$generator": "nutree/0.7.0",
        "$format_version": "1.0",
        "$key_map": {"type": "t", "name": "n", "age": "a", "guid": "g"},
        "$value_map": {"type": ["dept", "person"]},
    },
    "nodes": UG_OBJ_NODES,
}
UG_OBJ_TREE = [(-1, "dept:Development"), (0, "person:Alice:23:{123-456}"), (0, "person:Bob:32:{234-456}"), (0, "person:Charleen:43:{345-456}"), (-1, "dept:Marketing"), (4, "person:Charleen:43:{345-456}"), (4, "person:Dave:54:{456-456}")]
UG_OBJ_PLAIN = {
    "meta": {"$generator": "nutree/0.5.1", "$format_version": "1.0"},
    "nodes": [
        [0, {"type": "dept", "name": "Development"}],
        [1, {"type": "person", "name": "Alice", "age": 23, "guid": "{123-456}"}],
        [1, {"type": "person", "name": "Bob", "age": 32, "guid": "{234-456}"}],
        [1, {"type": "person", "name": "Charleen", "age": 43, "guid": "{345-456}"}],
        [0, {"type": "dept", "name": "Marketing"}],
        [5, 4],
        [5, {"type": "person", "name": "Dave", "age": 54, "guid": "{456-456}"}],
    ],
}


def ug_mapper(parent, data):
    if data["type"] == "person":
        return "person:%s:%s:%s" % (data["name"], data["age"], data["guid"])
    return "dept:%s" % data["name"]


def _copy(o):
    if isinstance(o, dict):
        return {k: _copy(v) for k, v in o.items()}
    if isinstance(o, list):
        return [_copy(v) for v in o]
    return o


def _described(tree, want):
    got = [(p, k) for p, k, _, _ in ser.observe_rt(tree)]
    return got == want


def body(ctx, desc, x):
    from nutree import Tree
    from nutree.typed_tree import TypedTree

    if desc["kind"] == "examples":
        ctx.mark()
        which = x["which"]
        doc, want, kw = [(UG_PLAIN, UG_PLAIN_TREE, {}), (UG_OBJ, UG_OBJ_TREE, {"mapper": ug_mapper}), (UG_OBJ_PLAIN, UG_OBJ_TREE, {"mapper": ug_mapper})][which]
        fm = {}
        t = Tree.load(ser.write_doc(ctx, _copy(doc)), file_meta=fm, **kw)
        if not _described(t, want):
            return "reader:user-guide-example-%d" % which
        if which == 0:
            if fm.get("foo") != "bar":
                return "reader:file_meta"
            if len(t.find_all("a11")) != 2 or not t.find_first("a11").is_clone():
                return "reader:clone-reference"
        else:
            ch = t.find_all("person:Charleen:43:{345-456}")
            if len(ch) != 2:
                return "reader:clone-reference"
        # malformed documents are rejected
        bad = x["bad"]
        d = _copy(doc)
        if bad == 0:
            return ""
        if bad == 1:
            d = [d]
        elif bad == 2:
            del d["meta"]
        elif bad == 3:
            del d["nodes"]
        elif bad == 4:
            del d["meta"]["$generator"]
        elif bad == 5:
            d["meta"]["$generator"] = "other/1.0"
        else:
            d = {"foo": 1}
        for cls in (Tree, TypedTree):
            try:
                cls.load(ser.write_doc(ctx, _copy(d)), **kw)
                return "reader:malformed-header-accepted(%d)" % bad
            except RuntimeError:
                pass
        return ""

    s = ser.make_source(desc, x)
    if s is None:
        return ""
    ctx.mark()
    kw = ser.option_args(s)
    kw.update(s.save_kw)
    fp = ser.open_channel(ctx)
    s.tree.save(fp, **kw)
    if s.meta and kw["meta"] != s.meta:
        return "writer:caller-meta-dict-changed"
    got = ser.read_doc(ctx, fp, None)
    # a second save with the same argument objects but all maps off must not
    # inherit anything from the first one
    kw2 = dict(kw, key_map=False, value_map=False)
    fp2 = ser.open_channel(ctx)
    s.tree.save(fp2, **kw2)
    got2 = ser.read_doc(ctx, fp2, None)
    if "$key_map" in got2["meta"] or "$value_map" in got2["meta"]:
        return "writer:second-save-inherits-maps"
    want = ser.encode(s, s.tree.calc_data_id if s.fl in ("str", "strids", "typed") else hash)
    c = ser.doc_equal(got, want)
    if c:
        return "writer:" + c
    # structural rules of the layout, independent of the encoder
    for i, (p, payload) in enumerate(got["nodes"], 1):
        if not (0 <= p < i):
            return "writer:parent-index-not-earlier"
        if isinstance(payload, int) and not isinstance(payload, bool) and not (1 <= payload < i):
            return "writer:clone-reference-not-earlier"
    # reader: encoder documents (with references, and with every clone spelled out)
    src = ser.observe_rt(s.tree)
    for spell in (False, True):
        doc = ser.encode(s, s.tree.calc_data_id if s.fl in ("str", "strids", "typed") else hash, spell_out_clones=spell)
        t = s.cls.load(ser.write_doc(ctx, _copy(doc)), **s.load_kw)
        got_rt = ser.observe_rt(t)
        if got_rt != src:
            return "reader:encoder-document(spell_out=%s)" % spell
        c = B.wf(t) or B.index_exact(t)
        if c:
            return "reader:" + c
    return ""
