"""C14 - the nested list-of-dicts form round-trips and mirrors the tree.

Per shape: labels are symbolic selectors into a pool (strings, no mapper) or
symbolic keys of keyed objects (pair of inverse mappers); optional explicit
data_ids are symbolic.  to_dict_list() is compared with an independent nested
encoding; from_dict() of it - directly and after a JSON round trip - must
reproduce shape, order, data, custom ids and the clone partition.
"""

import json

from vlib import build as B
from vlib.build import build, children_of, shape_str, shapes_upto
from vlib.stubs import json_normalise

ID = "C14"
FUNCTIONS = ["Node.to_dict", "Tree.to_dict_list", "Node.from_dict", "Tree.from_dict", "Node.append_child", "common.call_mapper"]
STUBS = ["S-dict", "S-hash", "S-fmt", "S-json (json_normalise stands for json.dumps/loads in symbolic runs; the native pass uses the real json module)"]
ASSUMPTIONS = [
    "string trees: names from the pool %r; object trees: objects keyed by a small symbolic int, serialised by a pair of inverse mappers" % (["a", "b", "c"],),
    "explicit data_ids (when used): absent, 101, 102 or the falsy id 0; the serialize mapper either updates the dict in place or returns a new dict",
    "JSON round-trips str/int/list/dict[str] structures unchanged (validated natively with the real json module)",
]
TIMEOUTS = {"quick": (600, 60), "thorough": (3000, 120)}
POOL = ["a", "b", "c"]


class Obj:
    __slots__ = ("key",)

    def __init__(self, key):
        self.key = key

    def __hash__(self):
        return 7

    def __str__(self):
        return "Obj"


def BOUNDS(tier):
    n = 4 if tier == "quick" else 5
    return {"max_nodes": n, "flavours": ["str", "str+ids", "obj"], "pool": POOL, "root_representations": ["fresh", "cleared"]}


def shards(tier):
    n = 4 if tier == "quick" else 5
    out = []
    for fl in ("str", "ids", "obj"):
        for sh in shapes_upto(n if fl == "str" else n - 1, 0):
            if B.max_siblings(sh) > len(POOL):
                continue  # not constructible: siblings need distinct names
            out.append({"name": "dict-%s-%s" % (fl, shape_str(sh)), "fl": fl, "shape": list(sh), "no_twin": False})
    return out


def params(desc):
    n = len(desc["shape"])
    ps = [("l%d" % i, "sel", 0, 2) for i in range(n)]
    if desc["fl"] == "ids":
        ps += [("d%d" % i, "sel", 0, 3) for i in range(n)]  # 0 = none, 3 = the falsy id 0
    if desc["fl"] == "obj":
        ps.append(("fresh", "bool", None, None))  # mapper returns a new dict instead of updating in place
    if n == 0:
        ps.append(("cleared", "bool", None, None))
    return ps


def ser_mapper(node, data):
    data["key"] = node.data.key
    return data


def ser_mapper_fresh(node, data):
    # a new dict holding only what this mapper knows about
    out = {k: data[k] for k in ("data", "data_id") if k in data}
    out["key"] = node.data.key
    return out


def de_mapper(parent, item):
    return Obj(item["key"])


def clone_partition(tree):
    ids = [n.data_id for n in tree]
    return [[j for j in range(len(ids)) if ids[j] == ids[i]] for i in range(len(ids))]


def body(ctx, desc, x):
    from nutree import Tree

    shape = tuple(desc["shape"])
    n = len(shape)
    fl = desc["fl"]
    sel = [x["l%d" % i] for i in range(n)]
    ids = None
    calc = None
    if fl == "obj":
        labels = [Obj(k + 1) for k in sel]
        calc = lambda tree, d: d.key if isinstance(d, Obj) else hash(d)  # noqa: E731
        mapper, demapper = (ser_mapper_fresh if x.get("fresh") else ser_mapper), de_mapper
    else:
        labels = [POOL[k] for k in sel]
        mapper = demapper = None
    if fl == "ids":
        ids = [None if x["d%d" % i] == 0 else (0 if x["d%d" % i] == 3 else 100 + x["d%d" % i]) for i in range(n)]
    try:
        tree, nodes = build(shape, labels, ids=ids, calc=calc, cleared=bool(x.get("cleared", False)))
    except Exception:  # noqa: BLE001
        return ""
    ctx.mark()
    obs0 = B.observe(tree, nodes)

    # independent encoding
    def enc(i):
        nd = nodes[i]
        d = {"data": "Obj" if fl == "obj" else labels[i]}
        default_id = 7 if fl == "obj" else tree.calc_data_id(labels[i])
        if nd.data_id != default_id:
            d["data_id"] = nd.data_id
        if fl == "obj":
            d["key"] = labels[i].key
        ch = children_of(shape, i)
        if ch:
            d["children"] = [enc(c) for c in ch]
        return d

    want = [enc(i) for i in children_of(shape, -1)]
    got = tree.to_dict_list(mapper=mapper) if mapper else tree.to_dict_list()
    if got != want:
        return "to_dict_list"
    if B.obs_equal(B.observe(tree, nodes), obs0):
        return "to_dict_list:source-changed"

    for via_json in (False, True):
        doc = got
        if via_json:
            doc = json.loads(json.dumps(got)) if ctx.native else json_normalise(got)
        t2 = Tree.from_dict(doc, mapper=demapper) if demapper else Tree.from_dict(doc)
        if not isinstance(t2, Tree):
            return "from_dict:class"
        src = list(tree)
        cp = list(t2)
        if len(src) != len(cp):
            return "from_dict:count"
        for a, b in zip(src, cp):
            if fl == "obj":
                if not isinstance(b.data, Obj) or b.data.key != a.data.key:
                    return "from_dict:data"
            elif b.data != a.data:
                return "from_dict:data"
            if b.data_id != a.data_id:
                return "from_dict:data_id"
            if len(b.children) != len(a.children):
                return "from_dict:shape"
            pa, pb = a.parent, b.parent
            if (pa is None) != (pb is None):
                return "from_dict:shape"
            if pa is not None:
                ia = [k for k, s in enumerate(src) if s is pa][0]
                ib = [k for k, s in enumerate(cp) if s is pb][0]
                if ia != ib:
                    return "from_dict:parent"
        if clone_partition(tree) != clone_partition(t2):
            return "from_dict:clone-groups"
        c = B.wf(t2) or B.index_exact(t2)
        if c:
            return "from_dict:" + c
    return ""
