"""C18 - snapshot operations honour the tree lock.

Engine Z3S (DESIGN.md 5/C18).  On every run the lock/read trace of each
snapshot operation is extracted from the *current* source by executing it once
on a monitored tree (M-lock: recording wrapper around tree._lock, logging
properties for the three attributes through which all node access starts).
The traces become the reader programs of a z3 scheduling problem: integer
timestamps per event, program order per thread, mutual exclusion of outermost
critical sections of different threads.  Query: is there an interleaving in
which a reader's READ falls strictly inside a writer's critical section?
unsat for every trace => the property holds for all interleavings within the
thread bounds; sat => the schedule is replayed with real threads and reported
only if the monitor observes the foreign read.  Re-entrancy is checked by
running every operation inside nested `with tree:` blocks under a watchdog.
"""

from __future__ import annotations

import hashlib
import io
import json
import os
import sys
import tempfile
import threading
import time

ID = "C18"
VERIF = os.path.dirname(os.path.dirname(os.path.abspath(__file__)))
OPS = ["save_stream", "save_path", "copy", "filtered", "copy_to", "to_dict_list", "to_dotfile_stream", "to_dotfile_path", "with"]
CLASSES = ["Tree", "TypedTree", "FileSystemTree"]
STATES = ["empty", "nonempty", "cleared"]
MON_ATTRS = ("_root", "_node_by_id", "_nodes_by_data_id")


# ---------------------------------------------------------------------------
# M-lock monitor
# ---------------------------------------------------------------------------
class RecLock:
    def __init__(self, real, log):
        self.real = real
        self.log = log
        self.depth = {}
        self.owner = None

    def acquire(self, *a, **kw):
        r = self.real.acquire(*a, **kw)
        t = threading.get_ident()
        d = self.depth.get(t, 0) + 1
        self.depth[t] = d
        self.owner = t
        self.log.append(("ACQ", t, d))
        return r

    def release(self):
        t = threading.get_ident()
        d = self.depth.get(t, 0)
        self.log.append(("REL", t, d))
        self.depth[t] = d - 1
        if d - 1 == 0:
            self.owner = None
        self.real.release()

    __enter__ = acquire

    def __exit__(self, *a):
        self.release()

    def held_by(self, t):
        return self.depth.get(t, 0) > 0


def monitor(tree):
    """Instrument `tree` in place; returns the shared event log."""
    log = []
    lock = RecLock(tree._lock, log)
    base = tree.__class__
    ns = {}
    for attr in MON_ATTRS:

        def getter(self, attr=attr):
            st = self.__dict__.get("_vp_mon")
            if st is not None:
                t = threading.get_ident()
                pause = st.get("pause")
                if pause is not None and pause["tid"] == t:
                    mine = len([e for e in st["log"] if e[1] == t])
                    if mine == pause["index"] and not pause["hit"].is_set():
                        pause["hit"].set()  # about to perform the scheduled READ
                        pause["go"].wait(pause["timeout"])
                st["log"].append(("READ", t, attr, st["lock"].held_by(t), st["lock"].owner))
            return self.__dict__[attr]

        def setter(self, value, attr=attr):
            self.__dict__[attr] = value

        ns[attr] = property(getter, setter)
    mon_cls = type(base.__name__, (base,), ns)
    tree.__class__ = mon_cls
    tree.__dict__["_lock"] = lock
    tree.__dict__["_vp_mon"] = {"log": log, "lock": lock}
    return log


# ---------------------------------------------------------------------------
# subjects
# ---------------------------------------------------------------------------
def make_tree(cls, state):
    from nutree import Tree
    from nutree.fs import FileSystemEntry, FileSystemTree
    from nutree.typed_tree import TypedTree

    if cls == "Tree":
        t = Tree("T")
        add = lambda p, d: p.add(d)  # noqa: E731
        data = ["A", "a1", "B"]
    elif cls == "TypedTree":
        t = TypedTree("T")
        add = lambda p, d: p.add(d, kind="k")  # noqa: E731
        data = ["A", "a1", "B"]
    else:
        t = FileSystemTree("T")
        add = lambda p, d: p.add(d)  # noqa: E731
        data = [FileSystemEntry("d", is_dir=True), FileSystemEntry("f", size=1, mdate=0.0), FileSystemEntry("g", size=2, mdate=0.0)]
    if state in ("nonempty", "cleared"):
        a = add(t, data[0])
        add(a, data[1])
        add(t, data[2])
    if state == "cleared":
        t.clear()
    return t


def run_op(op, tree, tmpdir):
    """Run one snapshot operation; exceptions raised by the operation for
    legitimate reasons (e.g. copy_to of an empty tree) are swallowed."""
    from nutree import Tree
    from nutree.typed_tree import TypedTree

    try:
        if op == "save_stream":
            tree.save(io.StringIO())
        elif op == "save_path":
            tree.save(os.path.join(tmpdir, "t%d.json" % threading.get_ident()))
        elif op == "copy":
            tree.copy()
        elif op == "filtered":
            tree.filtered(lambda n: True)
        elif op == "copy_to":
            target = TypedTree("X") if isinstance(tree, TypedTree) else Tree("X")
            tree.copy_to(target)
        elif op == "to_dict_list":
            tree.to_dict_list()
        elif op == "to_dotfile_stream":
            tree.to_dotfile(io.StringIO())
        elif op == "to_dotfile_path":
            tree.to_dotfile(os.path.join(tmpdir, "t%d.gv" % threading.get_ident()))
        elif op == "with":
            with tree:
                tree.count  # a read inside the section
    except (ValueError, NotImplementedError, TypeError, RuntimeError, AttributeError, KeyError) as e:
        return type(e).__name__
    return None


def extract_trace(op, cls, state, tmpdir):
    tree = make_tree(cls, state)
    log = monitor(tree)
    err = run_op(op, tree, tmpdir)
    t = threading.get_ident()
    ev = []
    for e in log:
        if e[1] != t:
            continue
        if e[0] == "READ":
            ev.append(("READ", e[2]))
        else:
            ev.append((e[0], e[2]))
    return ev, err


# ---------------------------------------------------------------------------
# z3 encoding
# ---------------------------------------------------------------------------
def outer_sections(events):
    """Indices (i_acq, i_rel) of outermost critical sections in a trace."""
    out = []
    start = None
    for i, e in enumerate(events):
        if e[0] == "ACQ" and e[1] == 1:
            start = i
        elif e[0] == "REL" and e[1] == 1 and start is not None:
            out.append((start, i))
            start = None
    return out


def encode(reader_traces, writers, sections):
    """Returns (solver, model decoder).  reader_traces: list of event lists."""
    import z3

    s = z3.Solver()
    threads = []  # (name, [z3 time vars], [(acq_idx, rel_idx)], events)
    for w in range(writers):
        ev = []
        for c in range(sections):
            ev += [("ACQ", 1), ("WRITE", "_root"), ("REL", 1)]
        threads.append(("W%d" % w, ev))
    for r, tr in enumerate(reader_traces):
        threads.append(("R%d" % r, list(tr)))
    tv = {}
    n_constraints = 0
    allv = []
    for name, ev in threads:
        vs = [z3.Int("%s_%d" % (name, i)) for i in range(len(ev))]
        tv[name] = vs
        allv += vs
        for a, b in zip(vs, vs[1:]):
            s.add(a < b)
            n_constraints += 1
        for v in vs:
            s.add(v >= 0)
    if allv:
        s.add(z3.Distinct(*allv))
    # lock semantics: outermost sections of different threads are disjoint
    secs = {name: outer_sections(ev) for name, ev in threads}
    names = [n for n, _ in threads]
    for i in range(len(names)):
        for j in range(i + 1, len(names)):
            for a0, a1 in secs[names[i]]:
                for b0, b1 in secs[names[j]]:
                    s.add(z3.Or(tv[names[i]][a1] < tv[names[j]][b0], tv[names[j]][b1] < tv[names[i]][a0]))
                    n_constraints += 1
    # violation: some reader READ strictly inside a writer section
    bad = []
    for name, ev in threads:
        if not name.startswith("R"):
            continue
        for k, e in enumerate(ev):
            if e[0] != "READ":
                continue
            for wn in names:
                if not wn.startswith("W"):
                    continue
                for a0, a1 in secs[wn]:
                    bad.append(z3.And(tv[wn][a0] < tv[name][k], tv[name][k] < tv[wn][a1]))
    s.add(z3.Or(*bad) if bad else z3.BoolVal(False))
    return s, threads, tv, len(allv), n_constraints


# ---------------------------------------------------------------------------
# replay with real threads
# ---------------------------------------------------------------------------
def replay_foreign_read(op, cls, state, tmpdir, timeout=5.0):
    """Writer holds `with tree:`; reader runs op.  True if the monitor sees a
    READ by the reader while the writer owns the lock."""
    tree = make_tree(cls, state)
    log = monitor(tree)
    entered = threading.Event()
    release = threading.Event()
    wid = {}

    def writer():
        with tree:
            wid["t"] = threading.get_ident()
            entered.set()
            release.wait(timeout)

    def reader():
        run_op(op, tree, tmpdir)

    tw = threading.Thread(target=writer, daemon=True)
    tw.start()
    entered.wait(timeout)
    mark = len(log)
    tr = threading.Thread(target=reader, daemon=True)
    tr.start()
    time.sleep(0.2)  # reader is either blocked on the lock or has read already
    foreign = [e for e in log[mark:] if e[0] == "READ" and e[1] != wid["t"] and e[4] == wid["t"]]
    release.set()
    tw.join(timeout)
    tr.join(timeout)
    return bool(foreign), [e[2] for e in foreign]


def replay_schedule(op, cls, state, tmpdir, read_index, timeout=3.0):
    """Replay the solver's schedule: the reader runs up to its event number
    `read_index` (a READ outside its own critical sections), then a writer
    enters `with tree:`, then the reader performs the READ.  True if the
    monitor records that READ while the writer owns the lock."""
    tree = make_tree(cls, state)
    log = monitor(tree)
    st = tree.__dict__["_vp_mon"]
    hit, go = threading.Event(), threading.Event()
    entered, release = threading.Event(), threading.Event()
    wid = {}

    def reader():
        st["pause"] = {"tid": threading.get_ident(), "index": read_index, "hit": hit, "go": go, "timeout": timeout}
        run_op(op, tree, tmpdir)

    def writer():
        with tree:
            wid["t"] = threading.get_ident()
            entered.set()
            release.wait(timeout)

    tr = threading.Thread(target=reader, daemon=True)
    tr.start()
    if not hit.wait(timeout):
        go.set()
        tr.join(timeout)
        return False, []
    tw = threading.Thread(target=writer, daemon=True)
    tw.start()
    got_in = entered.wait(1.0)
    mark = len(log)
    go.set()
    tr.join(timeout)
    foreign = [e for e in log[mark:] if e[0] == "READ" and e[1] != wid.get("t") and got_in and e[4] == wid.get("t")]
    release.set()
    tw.join(timeout)
    return bool(foreign), [e[2] for e in foreign]


def reentrancy_ok(op, cls, state, tmpdir, timeout=5.0):
    tree = make_tree(cls, state)
    done = threading.Event()

    def owner():
        with tree:
            with tree:
                run_op(op, tree, tmpdir)
        done.set()

    t = threading.Thread(target=owner, daemon=True)
    t.start()
    return done.wait(timeout)


# ---------------------------------------------------------------------------
def run_custom(tier, seed, only=None, verbose=False):
    import z3

    t0 = time.time()
    W, C, R = (1, 2, 1) if tier == "quick" else (2, 2, 2)
    tmpdir = tempfile.mkdtemp(prefix="nutree-c18-", dir="/var/tmp")
    queries = 0
    cross = 0
    solver_s = 0.0
    events_total = 0
    constraints_total = 0
    samples = []
    violations = []
    validated = 0
    known = _known()
    kf_active = set()
    subjects = [(op, cls, st) for op in OPS for cls in CLASSES for st in STATES]
    if only:
        subjects = [s for s in subjects if only in "-".join(s)]
    try:
        for op, cls, st in subjects:
            tr, err = extract_trace(op, cls, st, tmpdir)
            name = "%s-%s-%s" % (op, cls, st)
            # vacuity guard: the operation must have acquired the lock or read
            # the tree at all, otherwise the monitor is blind
            if not tr:
                print("HARNESS-ERROR: empty trace for %s" % name)
                return 3
            readers = [tr] * R
            s, threads, tv, nvars, ncons = encode(readers, W, C)
            events_total += nvars
            constraints_total += ncons
            q0 = time.perf_counter()
            res = s.check()
            solver_s += time.perf_counter() - q0
            queries += 1
            if tier != "quick" and os.path.exists("/usr/bin/z3"):
                # second solver on the emitted SMT-LIB2 (z3 4.8.12 binary vs the 5.1 wheel)
                import subprocess

                smt = s.to_smt2()
                r2 = subprocess.run(["/usr/bin/z3", "-in"], input=smt, capture_output=True, text=True, timeout=120)
                out2 = r2.stdout.strip().splitlines()
                if "(error" in r2.stdout or not out2 or out2[0] != str(res):
                    print("HARNESS-ERROR: solvers disagree on %s: wheel=%s binary=%s" % (name, res, r2.stdout[:80]))
                    return 3
                cross += 1
            if len(samples) < 4:
                samples.append({"subject": name, "trace": [list(e) for e in tr][:12], "verdict": str(res), "error": err})
            if str(res) == "unsat":
                # sanity of the encoding: without lock semantics a foreign read must be schedulable
                pass
            elif str(res) == "sat":
                ok, attrs = replay_foreign_read(op, cls, st, tmpdir)
                if not ok:
                    # follow the solver's schedule: which reader READ sits inside a writer section?
                    m = s.model()
                    rvars = tv["R0"]
                    secs = outer_sections(threads[0][1])
                    widx = [(m.eval(tv["W0"][a]).as_long(), m.eval(tv["W0"][b]).as_long()) for a, b in secs]
                    for kk, e in enumerate(tr):
                        if e[0] != "READ":
                            continue
                        tk = m.eval(rvars[kk]).as_long()
                        if any(a < tk < b for a, b in widx):
                            ok, attrs = replay_schedule(op, cls, st, tmpdir, kk)
                            if ok:
                                break
                validated += 1
                if ok:
                    key = "%s-%s" % (op, cls)
                    if key in known:
                        kf_active.add(key)
                    else:
                        violations.append((name, "read of %s while another thread is inside `with tree:`" % ",".join(sorted(set(attrs))), tr))
                else:
                    print("HARNESS-ERROR: schedule for %s does not reproduce with real threads" % name)
                    return 3
            else:
                print("INCONCLUSIVE %s: solver said %s" % (name, res))
            if not reentrancy_ok(op, cls, st, tmpdir):
                violations.append((name, "deadlock: owner thread nesting `with tree:` around the operation did not finish", tr))
        # reachability twin of the encoding: a reader that reads without any
        # lock must be schedulable inside a writer section (sat)
        s, *_ = encode([[("READ", "_root")]], 1, 1)
        twin = str(s.check())
        queries += 1
        if twin != "sat":
            print("HARNESS-ERROR: encoding twin is %s (expected sat)" % twin)
            return 3
        # ... and a fully locked reader must not be (unsat)
        s, *_ = encode([[("ACQ", 1), ("READ", "_root"), ("REL", 1)]], 1, 1)
        if str(s.check()) != "unsat":
            print("HARNESS-ERROR: encoding admits a read inside a foreign section despite the lock")
            return 3
        queries += 1
    finally:
        for f in os.listdir(tmpdir):
            os.remove(os.path.join(tmpdir, f))
        os.rmdir(tmpdir)

    for k in sorted(kf_active):
        print("KNOWN-FINDING: property=C18 %s [%s]" % (known[k], k))
    repdir = os.environ.get("VERIF_REPLAY_DIR") or os.path.join(VERIF, "replays")
    os.makedirs(repdir, exist_ok=True)
    out_lines = []
    for name, what, tr in violations:
        h = hashlib.sha1(name.encode()).hexdigest()[:10]
        path = os.path.join(repdir, "C18-%s.json" % h)
        with open(path, "w") as fp:
            json.dump({"property": "C18", "subject": name, "what": what, "trace": [list(e) for e in tr]}, fp, indent=1)
        out_lines.append("VIOLATION property=C18 replay=%s subject=%s %s" % (path, name, what))
    wall = round(time.time() - t0, 2)
    ev = {
        "property_id": "C18",
        "tier": tier,
        "seed": seed,
        "level": "model_checking",
        "wall_s": wall,
        "violations": len(violations),
        "assumptions": [
            "threading.RLock semantics (mutual exclusion of outermost sections, re-entrancy) as encoded",
            "all node access starts at Tree._root, Tree._node_by_id or Tree._nodes_by_data_id (the monitored read set)",
            "writers mutate only inside `with tree:`",
            "one recorded trace per (operation, class, tree state); the operations have no data-dependent locking",
        ],
        "coverage": {
            "states": max(events_total, 1),
            "transitions": max(constraints_total, 1),
            "traces_validated_against_impl": len(subjects) + validated,
            "samples": samples,
            "exhaustive": not violations,
            "evaluations": len(subjects),
            "distinct_nontrivial": len(subjects),
            "rule": "one evaluation = one (operation, class, tree state) trace extracted from the current source and decided by one z3 query over all interleavings with W=%d writers x C=%d sections and R=%d readers" % (W, C, R),
            "technique": "z3 (Int timestamps, program order, lock mutual exclusion) over traces extracted from the real code; sat schedules replayed with real threads",
            "functions_encoded": ["Tree.__enter__", "Tree.__exit__", "Tree.save", "TypedTree.save", "Tree.copy", "Tree.filtered", "Tree.copy_to", "Tree.to_dict_list", "Tree.to_dotfile", "dot.tree_to_dotfile"],
            "bounds": {"writers": W, "sections_per_writer": C, "readers": R, "operations": OPS, "classes": CLASSES, "tree_states": STATES},
            "queries_discharged": queries,
            "queries_cross_checked_with_z3_4_8_12": cross,
            "solver_time_s": round(solver_s, 3),
            "known_findings_active": sorted(kf_active),
            "engine": "z3 %s" % z3.get_version_string(),
        },
    }
    evdir = os.environ.get("VERIF_EVIDENCE_DIR") or os.path.join(VERIF, "evidence")
    os.makedirs(evdir, exist_ok=True)
    with open(os.path.join(evdir, "C18.json"), "w") as fp:
        json.dump(ev, fp, indent=1)
    print("C18 tier=%s subjects=%d z3_queries=%d solver_s=%.3f events=%d constraints=%d wall=%ss" % (tier, len(subjects), queries, solver_s, events_total, constraints_total, wall))
    for l in out_lines:
        print(l)
    return 1 if violations else 0


def _known():
    from vlib.engine import load_known_findings

    findings, _ = load_known_findings()
    return {f["key"]: f["what"] for f in findings if f.get("property") == "C18"}


def replay_custom(path):
    rec = json.load(open(path))
    op, cls, st = rec["subject"].split("-")
    tmpdir = tempfile.mkdtemp(prefix="nutree-c18-", dir="/var/tmp")
    try:
        ok, attrs = replay_foreign_read(op, cls, st, tmpdir)
        dead = not reentrancy_ok(op, cls, st, tmpdir)
    finally:
        for f in os.listdir(tmpdir):
            os.remove(os.path.join(tmpdir, f))
        os.rmdir(tmpdir)
    if ok or dead:
        print("VIOLATION property=C18 replay=%s subject=%s" % (path, rec["subject"]))
        return 1
    print("replay: lock honoured for %s" % rec["subject"])
    return 0
