"""C05 - save() then load() reproduces the tree under every storage option.

Per shape and flavour (plain/str, plain/str+explicit ids, plain/objects with
callback mappers, typed/str, derived typed class with method mappers): labels,
ids and kinds are symbolic selectors (every clone pattern incl. clones of
differing kind and clones below a sibling of their first occurrence), key_map,
value_map in {default, off, custom} and the meta flag are symbolic.  json is
replaced by the S-json channel in symbolic runs; the native validation pass
uses the real json module, real streams, files and every compression method.
"""

import os
import tempfile
import zipfile

from vlib import build as B
from vlib import ser
from vlib.build import shape_str, shapes_upto
from vlib.stubs import install_json_stub

ID = "C05"
FUNCTIONS = [
    "Tree.save", "Tree.load", "Tree._from_list", "Tree._uncompress_entry", "Tree.to_list_iter", "Node.to_list_iter",
    "Node._make_list_entry", "Node._compress_entry", "TypedTree.save", "TypedTree.load", "TypedTree._from_list",
    "TypedNode._make_list_entry", "TypedTree.deserialize_mapper", "common.call_mapper", "Node.add_child",
]
STUBS = ["S-dict", "S-hash", "S-fmt", "S-json (channel storing the normalised document)"]
ASSUMPTIONS = [
    "names from the pool %r, object keys 1..3, explicit ids 101..102, kinds from %r" % (ser.POOL, ser.KINDS),
    "JSON round-trips the documents nutree writes (validated natively with the real json module on every run)",
    "compression methods and path targets run through zipfile/C codecs: exercised concretely in the native validation pass only (outside the symbolic claim)",
]
TIMEOUTS = {"quick": (600, 60), "thorough": (3000, 120)}


def BOUNDS(tier):
    n = 4 if tier == "quick" else 5
    return {"max_nodes": n, "flavours": ser.FLAVOURS, "key_map": ["default", "off", "custom"], "value_map": ["default", "off", "custom"], "meta": [None, {"foo": "bar"}], "compression_native_only": ["False", "True", "STORED", "DEFLATED", "BZIP2", "LZMA"]}


def shards(tier):
    n = 4 if tier == "quick" else 5
    out = []
    for fl in ser.FLAVOURS:
        nn = n if fl == "str" else n - 1
        for sh in shapes_upto(nn, 0):
            if B.max_siblings(sh) > len(ser.POOL):
                continue  # not constructible: siblings need distinct names
            out.append({"name": "rt-%s-%s" % (fl, shape_str(sh)), "fl": fl, "shape": list(sh), "cost": 5 if fl in ("typed", "derived") else 0})
    return out


params = ser.params


def setup_symbolic(desc):
    install_json_stub()


def body(ctx, desc, x):
    s = ser.make_source(desc, x)
    if s is None:
        return ""
    ctx.mark()
    obs0 = B.observe(s.tree, s.nodes)
    want = ser.observe_rt(s.tree)
    kw = ser.option_args(s)
    kw.update(s.save_kw)
    fp = ser.open_channel(ctx)
    s.tree.save(fp, **kw)
    if B.obs_equal(B.observe(s.tree, s.nodes), obs0):
        return "save:source-changed"
    if s.meta and kw["meta"] != s.meta:
        return "save:caller-meta-dict-changed"
    for k_, v_ in (("key_map", ser.CUSTOM_KEY_MAP), ("value_map", ser.CUSTOM_VALUE_MAP)):
        if isinstance(kw.get(k_), dict) and kw[k_] != v_ and s.fl not in ("typed", "derived"):
            return "save:caller-%s-changed" % k_
    ser.rewind(fp)
    fm = {}
    loaded = s.cls.load(fp, file_meta=fm, **s.load_kw)
    if loaded.__class__ is not s.cls:
        return "load:class"
    got = ser.observe_rt(loaded)
    if len(got) != len(want):
        return "load:node-count"
    for a, b in zip(got, want):
        if a[0] != b[0]:
            return "load:shape"
        if a[1] != b[1]:
            return "load:data"
        if a[2] != b[2]:
            return "load:data_id"
        if a[3] != b[3]:
            return "load:kind"
    c = B.wf(loaded) or B.index_exact(loaded)
    if c:
        return "load:" + c
    if not str(fm.get("$generator", "")).startswith("nutree/") or fm.get("$format_version") != "1.0":
        return "load:file_meta-header"
    if s.meta and fm.get("foo") != "bar":
        return "load:file_meta-user"
    if ctx.native:
        return _native_targets(s, want, kw)
    return ""


def _native_targets(s, want, kw):
    """Concrete part of the claim: path targets and every compression method."""
    d = tempfile.mkdtemp(prefix="nutree-c05-", dir="/var/tmp")
    try:
        for comp in (False, True, zipfile.ZIP_STORED, zipfile.ZIP_DEFLATED, zipfile.ZIP_BZIP2, zipfile.ZIP_LZMA):
            path = os.path.join(d, "t.nutree")
            if s.fl in ("typed", "derived"):
                if comp is not False:
                    continue  # TypedTree.save() has no compression argument
                s.tree.save(path, **kw)
            else:
                s.tree.save(path, compression=comp, **kw)
            fm2 = {}
            t2 = s.cls.load(path, file_meta=fm2, **s.load_kw)
            if ser.observe_rt(t2) != want:
                return "load:path-target(compression=%r)" % (comp,)
            if s.meta and fm2.get("foo") != "bar":
                return "load:path-target-file_meta"
            os.remove(path)
    finally:
        for f in os.listdir(d):
            os.remove(os.path.join(d, f))
        os.rmdir(d)
    return ""
