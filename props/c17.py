"""C17 - DOT, Mermaid and RDF exports describe exactly the tree's edges.

Per shape, plain and typed: labels are symbolic selectors into a name pool
(clones), kinds symbolic selectors, start node / unique_nodes / add_root
symbolic.  The emitted DOT and Mermaid lines are parsed by small independent
parsers, RDF triples are read from the rdflib graph; node and edge sets are
compared with what the parent vector says.
"""

import io
import re
import sys

from vlib.build import build, children_of, descendants_of, max_siblings, shape_str, shapes_upto

ID = "C17"
FUNCTIONS = [
    "dot.node_to_dot", "Node.to_dot", "Tree.to_dot", "TypedNode.to_dot", "Tree.to_dotfile", "dot.tree_to_dotfile",
    "mermaid._node_to_mermaid_flowchart_iter", "mermaid.node_to_mermaid_flowchart", "Node.to_mermaid_flowchart",
    "Tree.to_mermaid_flowchart", "rdf.node_to_rdf", "rdf.tree_to_rdf", "rdf._add_child_node", "rdf._add_child_nodes",
]
STUBS = ["S-dict", "S-hash"]
STUBS_INSTALL = {"symbolic": True, "fmt": False}
ASSUMPTIONS = [
    "names from the pool %r (clones allowed), kinds from a pool of two" % (["a", "b", "c"],),
    "conversion to image formats (graphviz, mmdc) is outside the claim (external programs)",
    "an rdflib.Graph is a set of triples: edge multiplicity is not observable there; edge sets are compared",
]
TIMEOUTS = {"quick": (600, 120), "thorough": (3000, 240)}
POOL = ["a", "b", "c"]
KINDS = ["k0", "k1"]
_VENV_SP = "/venv/lib/python3.12/site-packages"


def BOUNDS(tier):
    n = 4 if tier == "quick" else 5
    return {"max_nodes": n, "formats": ["dot", "mermaid", "rdf"], "classes": ["Tree", "TypedTree"], "start": "tree and every node", "unique_nodes": [True, False], "add_root": [True, False]}


def shards(tier):
    n = 4 if tier == "quick" else 5
    out = []
    for typed in (False, True):
        for sh in shapes_upto(n if not typed else n - 1, 1):
            if max_siblings(sh) > len(POOL):
                continue  # not constructible: siblings need distinct names
            out.append({"name": "export-%s-%s" % ("typed" if typed else "plain", shape_str(sh)), "shape": list(sh), "typed": typed})
    return out


def params(desc):
    n = len(desc["shape"])
    ps = [("l%d" % i, "sel", 0, 2) for i in range(n)]
    if desc["typed"]:
        ps += [("k%d" % i, "sel", 0, 1) for i in range(n)]
    ps += [("s", "sel", -1, n - 1), ("unique", "bool", None, None), ("root", "bool", None, None)]
    return ps


def _ensure_rdflib():
    try:
        import rdflib  # noqa: F401
    except ImportError:
        if _VENV_SP not in sys.path:
            sys.path.append(_VENV_SP)
        import importlib

        import nutree.rdf

        importlib.reload(nutree.rdf)
        import nutree.node
        import nutree.tree

        nutree.node.node_to_rdf = nutree.rdf.node_to_rdf
        nutree.tree.tree_to_rdf = nutree.rdf.tree_to_rdf


def setup_symbolic(desc):
    _ensure_rdflib()


def setup_native():
    _ensure_rdflib()


DOT_NODE = re.compile(r'^  (\S+?)(?: \[(.*)\])?$')
DOT_EDGE = re.compile(r'^  (\S+) -> (\S+?)(?: \[(.*)\])?$')
MM_NODE = re.compile(r'^(\d+)(?:\("(.*)"\)|\{\{"(.*)"\}\})$')
MM_EDGE = re.compile(r'^(\d+) --> (\d+)$')
MM_EDGE_T = re.compile(r'^(\d+)-- "(.*)" -->(\d+)$')


def _attrs(s):
    return dict(re.findall(r'(\w+)="([^"]*)"', s or ""))


def body(ctx, desc, x):
    shape = tuple(desc["shape"])
    n = len(shape)
    typed = desc["typed"]
    labels = [POOL[x["l%d" % i]] for i in range(n)]
    kinds = [KINDS[x["k%d" % i]] for i in range(n)] if typed else None
    s = x["s"]
    unique, root = x["unique"], x["root"]
    try:
        tree, nodes = build(shape, labels, kinds=kinds, cls="TypedTree" if typed else "Tree", name="T")
    except Exception:  # noqa: BLE001
        return ""
    ctx.mark()
    c = _compare(ctx, tree, shape, labels, kinds, nodes, s, unique, root, typed)
    if c:
        return c
    # history: everything was exported once; relabel the last node (same tree
    # object, no node added or removed) and export again
    j = n - 1
    try:
        nodes[j].set_data("zz", with_clones=False)
    except Exception:  # noqa: BLE001 - refused (would duplicate a sibling): nothing to re-export
        return ""
    labels2 = list(labels)
    labels2[j] = "zz"
    c = _compare(ctx, tree, shape, labels2, kinds, nodes, s, unique, root, typed)
    return "after-rename:" + c if c else ""


def _compare(ctx, tree, shape, labels, kinds, nodes, s, unique, root, typed):
    n = len(shape)
    start = tree.system_root if s < 0 else nodes[s]
    members = list(range(n)) if s < 0 else descendants_of(shape, s)

    def key(i):
        nd = start if i == s else nodes[i]
        if i < 0:
            nd = tree.system_root
        return nd.data_id if unique else nd.node_id

    # expected node keys (first occurrence order) and edges
    exp_nodes = []
    if root:
        exp_nodes.append(key(s))
    for i in members:
        k = key(i)
        if unique and k in exp_nodes[(1 if root else 0):]:
            continue
        exp_nodes.append(k)
    exp_edges = []
    for i in members:
        p = shape[i]
        if not root and p == s:
            continue
        exp_edges.append((key(p), key(i), kinds[i] if typed else None))
    name_of = {}
    for i in members:
        name_of.setdefault(key(i), labels[i])

    # ---- DOT
    if s < 0:
        lines = list(tree.to_dot(add_root=root, unique_nodes=unique))
    else:
        lines = list(nodes[s].to_dot(add_self=root, unique_nodes=unique))
    sect = None
    got_nodes, got_edges = [], []
    for ln in lines:
        if ln.startswith("  # Node Definitions"):
            sect = "n"
            continue
        if ln.startswith("  # Edge Definitions"):
            sect = "e"
            continue
        if not ln.startswith("  ") or ln.startswith("  #"):
            continue
        if sect == "n":
            m = DOT_NODE.match(ln)
            if not m:
                return "dot:unparsable-node-line"
            got_nodes.append((m.group(1), _attrs(m.group(2))))
        elif sect == "e":
            m = DOT_EDGE.match(ln)
            if not m:
                return "dot:unparsable-edge-line"
            got_edges.append((m.group(1), m.group(2), _attrs(m.group(3)).get("label")))
    if [k for k, _ in got_nodes] != [str(k) for k in exp_nodes]:
        return "dot:node-definitions"
    for k, a in got_nodes[(1 if root else 0):]:
        if a.get("label") != name_of[[e for e in exp_nodes if str(e) == k][0]]:
            return "dot:node-label"
    if got_edges != [(str(a), str(b), c) for a, b, c in exp_edges]:
        return "dot:edges"
    if lines[0].startswith("#") is False or not lines[1].startswith('digraph "T" {') or lines[-1] != "}":
        return "dot:frame"
    if s < 0:
        fp = io.StringIO()
        tree.to_dotfile(fp, add_root=root, unique_nodes=unique)
        if fp.getvalue() != "".join(l + "\n" for l in lines):
            return "dotfile:differs-from-to_dot"

    # ---- Mermaid
    fp = io.StringIO()
    if s < 0:
        tree.to_mermaid_flowchart(fp, add_root=root, unique_nodes=unique, title=False, as_markdown=False)
    else:
        nodes[s].to_mermaid_flowchart(fp, add_self=root, unique_nodes=unique, title=False, as_markdown=False)
    mm_nodes, mm_edges = [], []
    sect = None
    for ln in fp.getvalue().splitlines():
        if ln.startswith("%% Nodes:"):
            sect = "n"
            continue
        if ln.startswith("%% Edges:"):
            sect = "e"
            continue
        if not ln or ln.startswith("%%"):
            continue
        if sect == "n":
            m = MM_NODE.match(ln)
            if not m:
                return "mermaid:unparsable-node-line"
            mm_nodes.append((int(m.group(1)), m.group(2) if m.group(2) is not None else m.group(3)))
        elif sect == "e":
            m = MM_EDGE_T.match(ln)
            if m:
                mm_edges.append((int(m.group(1)), int(m.group(3)), m.group(2)))
                continue
            m = MM_EDGE.match(ln)
            if not m:
                return "mermaid:unparsable-edge-line"
            mm_edges.append((int(m.group(1)), int(m.group(2)), None))
    idx = {}
    exp_mm_nodes = []
    if root:
        idx[key(s)] = 0
        exp_mm_nodes.append((0, "T" if s < 0 else labels[s]))
    nxt = 1
    for i in members:
        k = key(i)
        if k in idx:
            continue
        idx[k] = nxt
        exp_mm_nodes.append((nxt, labels[i]))
        nxt += 1
    if mm_nodes != exp_mm_nodes:
        return "mermaid:node-definitions"
    if mm_edges != [(idx[a], idx[b], c) for a, b, c in exp_edges]:
        return "mermaid:edges"

    # ---- RDF (keyed by data_id by construction); every input is concrete here
    # (pool names, bisected selectors), so rdflib runs without CrossHair tracing
    if unique:
        from vlib.engine import untraced

        with untraced(ctx):
            return _compare_rdf(tree, shape, labels, kinds, nodes, s, root, typed, members)
    return ""


def _compare_rdf(tree, shape, labels, kinds, nodes, s, root, typed, members):
    if True:
        from nutree.rdf import NUTREE_NS, Literal

        g = tree.to_rdf_graph() if s < 0 else nodes[s].to_rdf_graph(add_self=root)
        has_child = set()
        for a, _, b in g.triples((None, NUTREE_NS.has_child, None)):
            has_child.add((str(a), str(b)))
        rdf_root = s < 0 or root  # the tree variant always has its root
        exp = set()
        for i in members:
            p = shape[i]
            if p == s:
                if not rdf_root:
                    continue
                pa = str(NUTREE_NS.system_root) if s < 0 else str(Literal(nodes[s].data_id))
            else:
                pa = str(Literal(nodes[p].data_id))
            exp.add((pa, str(Literal(nodes[i].data_id))))
        if has_child != exp:
            return "rdf:has_child-edges"
        names = set((str(a), str(b)) for a, _, b in g.triples((None, NUTREE_NS.name, None)))
        exp_names = set((str(Literal(nodes[i].data_id)), labels[i]) for i in members)
        if s < 0:
            exp_names.add((str(NUTREE_NS.system_root), "T"))
        elif root:
            exp_names.add((str(Literal(nodes[s].data_id)), labels[s]))
        if names != exp_names:
            return "rdf:names"
        if typed:
            ks = set((str(a), str(b)) for a, _, b in g.triples((None, NUTREE_NS.kind, None)))
            exp_k = set((str(Literal(nodes[i].data_id)), kinds[i]) for i in members)
            if s >= 0 and root:
                exp_k.add((str(Literal(nodes[s].data_id)), kinds[s]))
            if ks != exp_k:
                return "rdf:kinds"
        ix = set((str(a), int(b)) for a, _, b in g.triples((None, NUTREE_NS.index, None)))
        exp_ix = set((str(Literal(nodes[i].data_id)), children_of(shape, shape[i]).index(i)) for i in members)
        if ix != exp_ix:
            return "rdf:index"
    return ""
