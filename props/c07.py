"""C07 - copies are faithful to the source and independent of it.

Shards: copy operation x source shape x flavour (ints with default ids, ints
with explicit ids, keyed objects with a calc_data_id callback, typed).  Labels,
ids and kinds are symbolic; the copied branch, the target position and one
follow-up mutation (on the source or on the copy) are symbolic selectors.
Copy-in operations inside one tree (add(node), copy_to, deep copies) are also
covered by C04's effect oracle.
"""

from vlib import build as B
from vlib.build import build, descendants_of, shape_str, shapes_upto

ID = "C07"
FUNCTIONS = [
    "Tree.copy", "Tree.copy_to", "Node.copy", "Node.copy_to", "Node.add_child", "Node._add_from",
    "TypedNode.copy", "TypedNode.add_child", "TypedNode._add_from", "TypedTree.add_child",
]
STUBS = ["S-dict", "S-hash", "S-fmt"]
ASSUMPTIONS = [
    "labels / keys / explicit ids are integers >= 1 (any value); kinds come from a pool of two",
    "keyed objects: instances of a harness class whose key attribute is the symbolic label and whose identity must be shared between source and copy",
    "one follow-up mutation (add / remove / set_data / sort) on either side",
]
TIMEOUTS = {"quick": (600, 60), "thorough": (3000, 120)}
OPS = ["tree_copy", "node_copy", "copy_to_other", "tree_copy_to_other", "add_tree_other"]
FLAVOURS = ["R1", "R3", "obj", "typed"]
KINDS = ["k0", "k1"]


class Obj:
    """Data object keyed by `key`; identity matters, hashing is deterministic."""

    __slots__ = ("key",)

    def __init__(self, key):
        self.key = key

    def __hash__(self):
        return 7

    def __repr__(self):
        return "Obj"


def BOUNDS(tier):
    return {"max_nodes_source": "2 (3 for tree/node copy of int trees)" if tier == "quick" else "3 (4 for Tree.copy of int trees)", "ops": OPS, "flavours": FLAVOURS, "other_tree": "one node", "follow_up": 7}


def shards(tier):
    out = []
    for op in OPS:
        for fl in FLAVOURS:
            if tier == "quick":
                nn = 3 if (fl == "R1" and op in ("tree_copy", "node_copy")) else 2
            else:
                nn = 4 if (fl == "R1" and op == "tree_copy") else 3
            for sh in shapes_upto(nn, 1):
                # fidelity: every argument combination, no follow-up mutation;
                # independence: default arguments, one symbolic follow-up mutation
                for mode in ("fid", "ind"):
                    out.append({"name": "%s-%s-%s-%s" % (op, fl, mode, shape_str(sh)), "op": op, "fl": fl, "shape": list(sh), "mode": mode})
    return out


def params(desc):
    n = len(desc["shape"])
    fl, op = desc["fl"], desc["op"]
    ps = [("l%d" % i, "int", 1, None) for i in range(n)]
    if fl == "R3":
        ps += [("d%d" % i, "int", 1, None) for i in range(n)]
    if fl == "typed":
        ps += [("k%d" % i, "sel", 0, 1) for i in range(n)]
    ind = desc.get("mode") == "ind"
    if ind:
        ps += [("f", "sel", 1, 6), ("j", "sel", 0, n - 1), ("L", "int", 1, None)]
    if op in ("node_copy", "copy_to_other"):
        ps += [("s", "sel", 0, n - 1)]
        if not ind:
            ps += [("add_self", "bool", None, None)]
    if op in ("copy_to_other", "tree_copy_to_other", "add_tree_other"):
        ps += [("o0", "int", 1, None)]
        if not ind:
            ps += [("deep", "bool", None, None), ("into", "sel", 0, 1)]
    if op == "add_tree_other" and not ind:
        ps += [("b", "sel", 0, 3)]
    return ps


def same_branch(copies, src_nodes, fresh_from, deep=True, top_default_kind=False):
    """copies (list of nodes) mirror src_nodes (list of nodes): same data object,
    same data_id, same kind, same order; all copies are new objects."""
    if len(copies) != len(src_nodes):
        return "copy:child-count"
    for c, s in zip(copies, src_nodes):
        if c is s:
            return "copy:same-node-object"
        for old in fresh_from:
            if c is old:
                return "copy:reuses-source-node"
        if isinstance(s.data, Obj):
            if c.data is not s.data:
                return "copy:data-identity"
        elif c.data != s.data:
            return "copy:data"
        if c.data_id != s.data_id:
            return "copy:data_id"
        if B.kind_of(c) != B.kind_of(s):
            if not (top_default_kind and B.kind_of(c) == "child"):
                return "copy:kind"
        if deep:
            r = same_branch(c.children, s.children, fresh_from, True)
            if r:
                return r
        elif c.children:
            return "copy:shallow-has-children"
    return ""


def body(ctx, desc, x):
    from nutree import Tree
    from nutree.typed_tree import TypedTree

    shape = tuple(desc["shape"])
    n = len(shape)
    fl, op = desc["fl"], desc["op"]
    x = dict(x)
    for k, v in (("f", 0), ("j", 0), ("L", 1), ("add_self", True), ("deep", True), ("into", 0), ("b", 0)):
        x.setdefault(k, v)
    keys = [x["l%d" % i] for i in range(n)]
    typed = fl == "typed"
    calc = None
    ids = None
    if fl == "obj":
        labels = [Obj(k) for k in keys]
        calc = lambda tree, data: data.key if isinstance(data, Obj) else data  # noqa: E731
    else:
        labels = keys
    if fl == "R3":
        ids = [x["d%d" % i] for i in range(n)]
    kinds = [KINDS[x["k%d" % i]] for i in range(n)] if typed else None
    try:
        src, nodes = build(shape, labels, ids=ids, kinds=kinds, cls="TypedTree" if typed else "Tree", calc=calc, name="S")
    except Exception:  # noqa: BLE001
        return ""
    obs0 = B.observe(src, nodes)
    cls = TypedTree if typed else Tree
    other = None
    okw = {"kind": "ko"} if typed else {}
    if op in ("copy_to_other", "tree_copy_to_other", "add_tree_other"):
        other = cls("O", calc_data_id=calc) if calc else cls("O")
        onode = other.add(Obj(x["o0"]) if fl == "obj" else x["o0"], **okw)
        target = other if x["into"] == 0 else onode
        pre_children = list(target.children)

    # ---- the copy
    try:
        if op == "tree_copy":
            cp = src.copy()
            if cp.__class__ is not src.__class__:
                return "copy:class"
            pairs = (cp.children, src.children)
            cp_tree = cp
        elif op == "node_copy":
            s = x["s"]
            cp = nodes[s].copy(add_self=x["add_self"])
            if cp.__class__ is not src.__class__:
                return "copy:class"
            pairs = (cp.children, [nodes[s]] if x["add_self"] else nodes[s].children)
            cp_tree = cp
        elif op == "copy_to_other":
            s = x["s"]
            if not x["add_self"] and not nodes[s].children:
                return ""  # documented to be refused
            ret = nodes[s].copy_to(target, add_self=x["add_self"], deep=x["deep"])
            new = [c for c in target.children if not any(c is p for p in pre_children)]
            srcs = [nodes[s]] if x["add_self"] else nodes[s].children
            if ret is not new[0]:
                return "copy_to:return-value"
            pairs = (new, srcs)
            cp_tree = other
        elif op == "tree_copy_to_other":
            src.copy_to(target, deep=x["deep"])
            new = [c for c in target.children if not any(c is p for p in pre_children)]
            pairs = (new, src.children)
            cp_tree = other
        else:  # add_tree_other
            b = [None, False, True, 0][x["b"]]
            target.add(src, before=b, deep=x["deep"])
            new = [c for c in target.children if not any(c is p for p in pre_children)]
            pairs = (new, src.children)
            cp_tree = other
            # position: before=True/0 puts the copies first, otherwise last
            tc = target.children
            first = tc[: len(new)] if b in (True, 0) and b is not False else tc[len(tc) - len(new):]
            for u, v in zip(first, new):
                if u is not v:
                    return "add_tree:position"
    except Exception as e:  # noqa: BLE001
        if other is not None and _collides(x, desc, keys, ids, target, op, nodes):
            # legitimately refused (target already holds that data_id): the
            # source must still be exactly as it was
            c = B.obs_equal(B.observe(src, nodes), obs0)
            if c:
                return "source-changed-by-refused-copy:" + c
            return ""
        return "copy:raised:%s" % type(e).__name__
    ctx.mark()
    deep = x.get("deep", True) if op != "node_copy" and op != "tree_copy" else True
    c = same_branch(pairs[0], pairs[1], nodes, deep=deep)
    if c == "copy:kind" and typed and op in ("copy_to_other", "tree_copy_to_other") and ctx.known("typed-copy_to-default-kind"):
        # exactly the listed finding: the copied top nodes carry the default kind
        c = same_branch(pairs[0], pairs[1], nodes, deep=deep, top_default_kind=True)
    if c:
        return c
    c = B.obs_equal(B.observe(src, nodes), obs0)
    if c:
        return "source-changed-by-copy:" + c
    c = B.wf(cp_tree) or B.index_exact(cp_tree) or B.wf(src)
    if c:
        return "copy:" + c

    # ---- independence: one follow-up mutation on one side
    f = x["f"]
    j = x["j"]
    L = Obj(x["L"]) if fl == "obj" else x["L"]
    cp_reg = [nd for nd in cp_tree]
    cp_obs = B.observe(cp_tree, cp_reg)
    src_obs = B.observe(src, nodes)
    akw = {"kind": "kn"} if typed else {}
    try:
        if f == 1:
            nodes[j].add(L, **akw)
        elif f == 2:
            nodes[j].remove()
        elif f == 3:
            nodes[j].set_data(L, data_id=x["L"], with_clones=False)
        elif f == 4 and cp_reg:
            cp_reg[0].remove()
        elif f == 5 and cp_reg:
            cp_reg[0].add(L, **akw)
        elif f == 6 and cp_reg:
            cp_reg[-1].set_data(L, data_id=x["L"], with_clones=False)
    except Exception:  # noqa: BLE001 - a refused follow-up is fine, both sides must then be unchanged
        pass
    if f in (1, 2, 3):
        c = B.obs_equal(B.observe(cp_tree, cp_reg), cp_obs)
        if c:
            return "copy-changed-by-source-mutation:" + c
    elif f in (4, 5, 6):
        c = B.obs_equal(B.observe(src, nodes), src_obs)
        if c:
            return "source-changed-by-copy-mutation:" + c
    return ""


def _collides(x, desc, keys, ids, target, op, nodes):
    """Would the copy place a second child with an existing data_id below target?"""
    have = [c.data_id for c in target.children]
    if op == "copy_to_other":
        s = x["s"]
        srcs = [nodes[s]] if x["add_self"] else nodes[s].children
    else:
        srcs = [nd for nd in nodes if nd.parent is None]
    for s_ in srcs:
        for h in have:
            if h == s_.data_id:
                return True
    return False
