"""C06 - traversals visit each node once in documented order and obey control signals.

Shards per shape (bound parameter):
  iter-<shape>    symbolic start node and add_self; every ordered method is
                  compared with an independent reference traversal computed from
                  the parent vector; UNORDERED must be a permutation
  visit-<shape>   symbolic signal position j, signal kind k, carried value v
                  (unbounded int), add_self; on every path every start node and
                  the three visit methods (pre, post, level) are exercised
  random-<shape>  RANDOM_ORDER with random.shuffle replaced by a Fisher-Yates
                  shuffle driven by symbolic draws (every permutation)
"""

import warnings

from vlib.build import build, children_of, depth_of, descendants_of, shape_str, shapes_upto

ID = "C06"
FUNCTIONS = [
    "Node.iterator", "Node._iter_pre", "Node._iter_post", "Node._iter_level", "Node._iter_level_rtl",
    "Node._iter_zigzag", "Node._iter_zigzag_rtl", "Tree.iterator", "Node.visit", "Node._visit_pre",
    "Node._visit_post", "Node._visit_level", "Tree.visit", "common.call_traversal_cb",
]
STUBS = ["S-dict", "S-hash", "S-fmt", "S-shuffle (random.shuffle = Fisher-Yates over symbolic draws, random-* shards only)"]
ASSUMPTIONS = [
    "labels are distinct concrete strings (traversal never looks at the data)",
    "SkipBranch is asserted for pre-order and level-order only (post-order documents it as unsupported)",
    "a callback returning True is not exercised (user guide and call_traversal_cb disagree; the property does not mention it)",
    "exactly one signal per traversal, at the j-th callback invocation",
]
TIMEOUTS = {"quick": (300, 30), "thorough": (1200, 60)}


def BOUNDS(tier):
    n = 4 if tier == "quick" else 5
    return {"max_nodes": n, "start": "tree and every node", "methods": "all 8", "signal_position": "0..n (n = never)", "signal_kinds": 11, "carried_value": "unbounded int"}


def shards(tier):
    n = 4 if tier == "quick" else 5
    out = []
    for sh in shapes_upto(n, 1):
        out.append({"name": "iter-%s" % shape_str(sh), "kind": "iter", "shape": list(sh)})
        out.append({"name": "visit-%s" % shape_str(sh), "kind": "visit", "shape": list(sh)})
        if len(sh) <= 4:
            out.append({"name": "random-%s" % shape_str(sh), "kind": "random", "shape": list(sh)})
    return out


def params(desc):
    n = len(desc["shape"])
    if desc["kind"] == "iter":
        return [("s", "sel", -1, n - 1), ("add_self", "bool", None, None)]
    if desc["kind"] == "visit":
        return [("j", "sel", 0, n + 1), ("k", "sel", 0, 10), ("v", "int", None, None), ("add_self", "bool", None, None)]
    return [("r%d" % i, "sel", 0, i) for i in range(1, n)]


# ---------------------------------------------------------------------------
# reference traversals over the parent vector
# ---------------------------------------------------------------------------
def ref_post(shape, s):
    out = []
    for c in children_of(shape, s):
        out.extend(ref_post(shape, c))
        out.append(c)
    return out


def ref_levels(shape, s):
    if s < 0:
        members = list(range(len(shape)))
        base = 0
    else:
        members = descendants_of(shape, s)
        base = depth_of(shape, s)
    levels = {}
    for m in members:
        levels.setdefault(depth_of(shape, m) - base, []).append(m)
    return [sorted(levels[k]) for k in sorted(levels)]


def ref_order(shape, s, method, add_self):
    if method == "pre":
        seq = list(range(len(shape))) if s < 0 else descendants_of(shape, s)
    elif method == "post":
        seq = ref_post(shape, s)
    else:
        lv = ref_levels(shape, s)
        seq = []
        rev = method in ("level_rtl", "zigzag_rtl")
        for level in lv:
            seq.extend(reversed(level) if rev else level)
            if method in ("zigzag", "zigzag_rtl"):
                rev = not rev
    if add_self and s >= 0:
        seq = seq + [s] if method == "post" else [s] + seq
    return seq


ORDERED = ["pre", "post", "level", "level_rtl", "zigzag", "zigzag_rtl"]


def _labels(n):
    return ["n%d" % i for i in range(n)]


def body(ctx, desc, x):
    from nutree import IterMethod

    shape = tuple(desc["shape"])
    n = len(shape)
    kind = desc["kind"]
    labels = _labels(n)
    if kind == "random":
        # clones where the shape allows it: the permutation is over nodes, not over data
        try:
            tree, nodes = build(shape, ["n%d" % (i % 2) for i in range(n)])
        except Exception:  # noqa: BLE001
            tree, nodes = build(shape, labels)
    else:
        tree, nodes = build(shape, labels)
    M = {m.value: m for m in IterMethod}
    from vlib import build as B_

    obs0 = B_.observe(tree, nodes)
    if kind == "iter":
        s = int(x["s"])
        add_self = x["add_self"]
        ctx.mark()
        for meth in ORDERED:
            exp = [nodes[i] for i in ref_order(shape, s, meth, add_self)]
            if s < 0:
                got = list(tree.iterator(M[meth]))
            else:
                got = list(nodes[s].iterator(M[meth], add_self=add_self))
            if len(got) != len(exp):
                return "iter:%s:length" % meth
            for a, b in zip(got, exp):
                if a is not b:
                    return "iter:%s:order" % meth
        if s < 0:
            got = list(tree.iterator(M["unordered"]))
            if len(got) != n:
                return "iter:unordered:length"
            for nd in nodes:
                if len([g for g in got if g is nd]) != 1:
                    return "iter:unordered:not-a-permutation"
            if list(tree) != list(tree.iterator()) or [a for a in tree] != [nodes[i] for i in range(n)]:
                return "iter:__iter__"
        else:
            if [a for a in nodes[s]] != [nodes[i] for i in descendants_of(shape, s)]:
                return "iter:node.__iter__"
        if B_.obs_equal(B_.observe(tree, nodes), obs0) or B_.wf(tree):
            return "iter:tree-changed-by-traversal"
        return ""
    if kind == "random":
        import nutree.tree as nt

        draws = [x["r%d" % i] for i in range(1, n)]

        class Rnd:
            @staticmethod
            def shuffle(lst):
                for i in range(len(lst) - 1, 0, -1):
                    jj = int(draws[i - 1])
                    lst[i], lst[jj] = lst[jj], lst[i]

            @staticmethod
            def sample(population, k):
                lst = list(population)
                Rnd.shuffle(lst)
                return lst[:k]

        saved = nt.random
        nt.random = Rnd
        try:
            got = list(tree.iterator(M["random"]))
        finally:
            nt.random = saved
        ctx.mark()
        if len(got) != n:
            return "iter:random:length"
        for nd in nodes:
            if len([g for g in got if g is nd]) != 1:
                return "iter:random:not-a-permutation"
        return ""
    c = _visit(ctx, desc, x, tree, nodes, M)
    if not c and (B_.obs_equal(B_.observe(tree, nodes), obs0) or B_.wf(tree)):
        return "visit:tree-changed-by-traversal"
    return c


def _visit(ctx, desc, x, tree, nodes, M):
    from nutree import SkipBranch, StopTraversal

    shape = tuple(desc["shape"])
    n = len(shape)
    j, k, v, add_self = int(x["j"]), int(x["k"]), x["v"], x["add_self"]
    ctx.mark()
    for s in range(-1, n):
        for meth in ("pre", "post", "level"):
            if meth == "post" and k in (1, 2, 3):
                continue
            seq = ref_order(shape, s, meth, add_self)
            calls = []
            memo_seen = []
            memo = {"m": 1}

            def cb(node, m, calls=calls, memo_seen=memo_seen):
                memo_seen.append(m)
                idx = len(calls)
                calls.append(node)
                if idx != j or k == 0:
                    return None
                if k == 1:
                    return SkipBranch
                if k == 2:
                    return SkipBranch()
                if k == 3:
                    raise SkipBranch
                if k == 4:
                    return StopTraversal
                if k == 5:
                    return StopTraversal(v)
                if k == 6:
                    raise StopTraversal(v)
                if k == 7:
                    return False
                if k == 8:
                    return StopIteration
                if k == 9:
                    return StopIteration(v)
                raise StopIteration(v)

            with warnings.catch_warnings():
                warnings.simplefilter("ignore")
                if s < 0:
                    ret = tree.visit(cb, method=M[meth], memo=memo)
                else:
                    ret = nodes[s].visit(cb, add_self=add_self, method=M[meth], memo=memo)
            # expected callback sequence
            if j >= len(seq) or k == 0:
                exp, want = seq, None
            elif k in (1, 2, 3):
                dead = descendants_of(shape, seq[j])
                exp = [i for i in seq if i not in dead]
                want = None
            else:
                exp = seq[: j + 1]
                want = v if k in (5, 6, 9, 10) else None
            if len(calls) != len(exp):
                return "visit:%s:call-count(k=%d)" % (meth, k)
            for a, i in zip(calls, exp):
                if a is not nodes[i]:
                    return "visit:%s:order(k=%d)" % (meth, k)
            for m in memo_seen:
                if m is not memo:
                    return "visit:memo"
            if want is None:
                if ret is not None:
                    return "visit:%s:return-not-None(k=%d)" % (meth, k)
            elif ret != want:
                return "visit:%s:return-value(k=%d)" % (meth, k)
    return ""
