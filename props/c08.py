"""C08 - filtering keeps exactly the accepted nodes and their ancestors.

Per shape (bound parameter): one symbolic verdict per node, a symbolic
"raise instead of return" flag and a symbolic start (tree or node).  The same
predicate is applied in place (filter) and through the copying forms
(filtered, copy(predicate=)); all are compared with the keep-set computed by an
independent reading of ug_advanced.rst "Iteration Callbacks".
"""

from vlib import build as B
from vlib.build import build, children_of, shape_str, shapes_upto

ID = "C08"
FUNCTIONS = [
    "Node.filter", "Node.filtered", "Node.copy", "Node._add_from", "Node._add_filtered", "Tree.filter",
    "Tree.filtered", "Tree.copy", "common.call_predicate", "Node.remove", "Node.remove_children",
]
STUBS = ["S-dict", "S-hash", "S-fmt"]
ASSUMPTIONS = [
    "labels are distinct concrete strings; the predicate's verdict depends on the node only",
    "verdicts: True, False, None, SkipBranch(), SkipBranch(and_self=False), SelectBranch(), StopTraversal() as instances, returned or raised (one symbolic flag for all control verdicts), plus raised StopIteration",
    "returning the control *classes* from a predicate is not exercised",
]
TIMEOUTS = {"quick": (600, 30), "thorough": (3000, 60)}
VERDICTS = ["True", "False", "None", "Skip", "SkipKeepSelf", "Select", "Stop", "StopIteration"]


def BOUNDS(tier):
    n = 3 if tier == "quick" else 4
    return {"max_nodes": n, "verdicts_per_node": len(VERDICTS), "raised_or_returned": "symbolic flag", "start": "tree and every node", "forms": ["filter", "filtered", "copy(predicate=)", "Node.copy(add_self=False, predicate=)"]}


def shards(tier):
    n = 3 if tier == "quick" else 4
    out = [{"name": "filter-%s" % shape_str(sh), "shape": list(sh)} for sh in shapes_upto(n, 1)]
    out += [{"name": "filter-typed-%s" % shape_str(sh), "shape": list(sh), "typed": True} for sh in shapes_upto(n - 1, 1)]
    return out


def params(desc):
    n = len(desc["shape"])
    return [("v%d" % i, "int", 0, len(VERDICTS) - 1) for i in range(n)] + [("raised", "bool", None, None), ("s", "sel", -1, n - 1)]


def expected(shape, s, verdict):
    """Keep-set as nested [(index, children, dup)] below start s; `dup` marks
    nodes that were explicitly accepted (True / SkipKeepSelf)."""
    state = {"stopped": False}

    def full(i):
        return (i, [full(c) for c in children_of(shape, i)], False)

    def rec(p):
        out = []
        for c in children_of(shape, p):
            if state["stopped"]:
                break
            v = verdict(c)
            if v == "True":
                out.append((c, rec(c), True))
            elif v in ("False", "None"):
                sub = rec(c)
                if sub:
                    out.append((c, sub, False))
            elif v == "Skip":
                pass
            elif v == "SkipKeepSelf":
                out.append((c, [], True))
            elif v == "Select":
                out.append(full(c))
            else:  # Stop, StopIteration
                state["stopped"] = True
        return out

    return rec(s)


def with_dups(exp):
    """The known wrong result of the copying forms: every explicitly accepted
    node carries a copy of itself as first child."""
    out = []
    for i, sub, dup in exp:
        sub2 = with_dups(sub)
        if dup:
            sub2 = [(i, [], False)] + sub2
        out.append((i, sub2, dup))
    return out


def match(children, exp, nodes, ident):
    """children (real nodes) vs expected structure; ident: same node objects
    (in place) or copies referencing the same data."""
    if len(children) != len(exp):
        return False
    for c, (i, sub, _) in zip(children, exp):
        if ident:
            if c is not nodes[i]:
                return False
        else:
            if c is nodes[i] or c.data is not nodes[i].data or c.data_id != nodes[i].data_id:
                return False
        if not match(c.children, sub, nodes, ident):
            return False
    return True


def make_pred(x, raised):
    from nutree import SelectBranch, SkipBranch, StopTraversal

    def pred(node):
        i = int(node.data[1:])
        v = VERDICTS[int(x["v%d" % i])]
        if v == "True":
            return True
        if v == "False":
            return False
        if v == "None":
            return None
        if v == "StopIteration":
            raise StopIteration
        obj = {"Skip": SkipBranch(), "SkipKeepSelf": SkipBranch(and_self=False), "Select": SelectBranch(), "Stop": StopTraversal()}[v]
        if raised:
            raise obj
        return obj

    return pred


def body(ctx, desc, x):
    shape = tuple(desc["shape"])
    n = len(shape)
    labels = ["n%d" % i for i in range(n)]
    s = int(x["s"])
    raised = x["raised"]
    pred = make_pred(x, raised)
    verdict = lambda i: VERDICTS[int(x["v%d" % i])]  # noqa: E731
    exp = expected(shape, s, verdict)
    ctx.mark()

    typed = desc.get("typed", False)
    bkw = {"kinds": ["k"] * n, "cls": "TypedTree"} if typed else {}
    # --- copying forms (source must stay untouched)
    tree, nodes = build(shape, labels, **bkw)
    obs0 = B.observe(tree, nodes)
    if s < 0:
        forms = [("filtered", lambda: tree.filtered(pred)), ("copy(predicate)", lambda: tree.copy(predicate=pred))]
    else:
        forms = [
            ("node.filtered", lambda: nodes[s].filtered(pred)),
            ("node.copy(predicate)", lambda: nodes[s].copy(predicate=pred)),
            ("node.copy(add_self=False,predicate)", lambda: nodes[s].copy(add_self=False, predicate=pred)),
        ]
    for name, fn in forms:
        res = fn()
        if s < 0 or "add_self=False" in name:
            got = res.children
        else:
            top = res.children
            if len(top) != 1 or top[0].data is not nodes[s].data or top[0] is nodes[s]:
                return "%s:root-copy" % name
            got = top[0].children
        if not match(got, exp, nodes, ident=False):
            if ctx.known("filtered-duplicates-accepted-nodes") and match(got, with_dups(exp), nodes, ident=False):
                pass  # exactly the listed finding, nothing else
            else:
                return "%s:result" % name
        c = B.wf(res) or B.index_exact(res)
        if c:
            return "%s:%s" % (name, c)
        if res.__class__ is not tree.__class__:
            return "%s:class" % name
        if B.obs_equal(B.observe(tree, nodes), obs0):
            return "%s:source-changed" % name

    # --- in place
    tree2, nodes2 = build(shape, labels, **bkw)
    if s < 0:
        tree2.filter(pred)
        got = tree2.children
    else:
        nodes2[s].filter(pred)
        got = nodes2[s].children
    if not match(got, exp, nodes2, ident=True):
        return "filter:result"
    # everything outside the filtered branch is untouched
    if s >= 0:
        full = [(i, None, False) for i in children_of(shape, -1)]

        def outside(children, p):
            idx = children_of(shape, p)
            if len(children) != len(idx):
                return False
            for c, i in zip(children, idx):
                if c is not nodes2[i]:
                    return False
                if i != s and not outside(c.children, i):
                    return False
            return True

        if not outside(tree2.children, -1):
            return "filter:outside-branch-changed"
    c = B.wf(tree2) or B.index_exact(tree2)
    if c:
        return "filter:" + c
    return ""
