"""C16 - pretty-printing renders the tree shape faithfully in every style.

Shards per shape:
  custom-<shape>  the six connector segments, the join string and the title
                  text are symbolic strings (|s| <= 2); a symbolic flag picks
                  the 4- or 6-tuple form
  table-<shape>   the style is a symbolic index into nutree's CONNECTORS table
                  (plus "list"), join symbolic
On every path every start (tree, each node), add_self on/off, title in
{default, False, text} and string/callable repr are rendered and compared with
an independent renderer written from ug_pretty_print.rst.
"""

from vlib.build import build, children_of, descendants_of, shape_str, shapes_upto

ID = "C16"
FUNCTIONS = ["Node._get_prefix", "Node._render_lines", "Node.format_iter", "Node.format", "Tree.format_iter", "Tree.format", "Node.get_parent_list", "Node.iterator"]
STUBS = ["S-dict", "S-hash"]
STUBS_INSTALL = {"symbolic": True, "fmt": False}
ASSUMPTIONS = [
    "node renderings are the concrete labels (repr '{node.data}' and an equivalent callable); clone shards use two names selected symbolically per node; order shards build the tree in a non-document creation order",
    "the style is a symbolic selector over the 28 table styles, 'list', a custom 4-tuple and a custom 6-tuple with pairwise distinct segments; join a selector over three strings (symbolic z3 strings for the segments were tried and dropped: 12 s per path, see DESIGN.md section 9)",
    "decoding prefixes back to the shape is implied by equality with the reference renderer whenever the style's segments are distinguishable; it is not run as a separate step",
]
TIMEOUTS = {"quick": (600, 60), "thorough": (3000, 120)}


def BOUNDS(tier):
    n = 5 if tier == "quick" else 6
    return {"max_nodes": n, "segments": "concrete, selected symbolically", "styles": "28 table styles + list + custom 4/6-tuples", "title": ["default", False, "symbolic text"], "start": "tree and every node", "add_self": [True, False]}


def shards(tier):
    from vlib.mutprops import topo_orders

    n = 5 if tier == "quick" else 6
    out = [{"name": "format-%s" % shape_str(sh), "kind": "all", "shape": list(sh)} for sh in shapes_upto(n, 1)]
    # clones: labels are symbolic selectors into two names (rendering must not depend on the data)
    for sh in shapes_upto(n, 2):
        if max(len(children_of(sh, p)) for p in range(-1, len(sh))) <= 2:  # two names: at most two siblings
            out.append({"name": "clones-%s" % shape_str(sh), "kind": "clones", "shape": list(sh)})
    # equal-comparing data below one parent under distinct explicit data_ids (shape decisions must go by identity)
    for sh in shapes_upto(n - 1, 2):
        out.append({"name": "eqdata-%s" % shape_str(sh), "kind": "eqdata", "shape": list(sh)})
    # trees not built in document order (registration order != pre-order)
    for sh in shapes_upto(3 if tier == "quick" else 4, 2):
        for order in topo_orders(sh)[1:4]:
            out.append({"name": "order-%s-o%s" % (shape_str(sh), "".join(map(str, order))), "kind": "order", "shape": list(sh), "order": list(order)})
    return out


JOINS = ["\n", ", ", ""]
CUSTOM4 = ("A ", "B|", "`c-", "+dd")
CUSTOM6 = ("A", "B|", "`c", "+d", "`e.", "+f.")


SUBSET = [22, 27, 28, 30]  # round43, round43c, list, custom 6-tuple


def params(desc):
    if desc.get("kind", "all") == "all":
        return [("style", "sel", 0, 30), ("join", "sel", 0, len(JOINS) - 1)]
    ps = [("style", "sel", 0, len(SUBSET) - 1)]
    if desc["kind"] in ("clones", "eqdata"):
        ps += [("l%d" % i, "sel", 0, 1) for i in range(len(desc["shape"]))]
    return ps


def is_last(shape, i):
    sibs = children_of(shape, shape[i])
    return sibs[-1] == i


def ref_lines(shape, labels, root, show_root, root_text, style):
    """root: -1 (tree) or node index.  show_root: a first line (title / start
    node) is rendered.  style: None ('list'), 4- or 6-tuple."""
    lines = []
    if show_root:
        lines.append(root_text)
    members = list(range(len(shape))) if root < 0 else descendants_of(shape, root)
    for i in members:
        if style is None:
            lines.append(labels[i])
            continue
        if len(style) == 4:
            s0, s1, s2, s3 = style
            s4, s5 = s2, s3
        else:
            s0, s1, s2, s3, s4, s5 = style
        # ancestors of i strictly below root, top-down
        anc = []
        a = shape[i]
        while a != root:
            anc.append(a)
            a = shape[a]
        anc.reverse()
        if not show_root:
            # the top-most rendered level carries no connector and does not
            # contribute to the prefixes below it
            if not anc:
                lines.append(labels[i])
                continue
            anc = anc[1:]
        parts = [s0 if is_last(shape, a) else s1 for a in anc]
        if children_of(shape, i):
            parts.append(s4 if is_last(shape, i) else s5)
        else:
            parts.append(s2 if is_last(shape, i) else s3)
        lines.append("".join(parts) + labels[i])
    return lines


def body(ctx, desc, x):
    from nutree.common import CONNECTORS

    shape = tuple(desc["shape"])
    n = len(shape)
    kind = desc.get("kind", "all")
    labels = ["n%d " % i if i % 2 else "n%d" % i for i in range(n)]  # some renderings end in a blank
    if kind in ("clones", "eqdata"):
        labels = [["x", "y"][x["l%d" % i]] for i in range(n)]
    try:
        tree, nodes = build(shape, labels, ids=[500 + i for i in range(n)] if kind == "eqdata" else None, name="T", order=desc.get("order"))
    except Exception:  # noqa: BLE001 - equal sibling names: not constructible
        return ""
    join = JOINS[int(x["join"])] if kind == "all" else "\n"
    ctx.mark()
    k = int(x["style"]) if kind == "all" else SUBSET[x["style"]]
    names = list(CONNECTORS.keys())
    title_text = "My title"
    if k < len(names):
        arg = names[k]
        style = CONNECTORS[arg]
    elif k == 28:
        arg, style = "list", None
    elif k == 29:
        arg = style = CUSTOM4
    else:
        arg = style = list(CUSTOM6)
    reprs = ["{node.data}", lambda nd: nd.data]
    for rp in reprs:
        # Tree.format: title default / False / text
        for tmode in (0, 1, 2):
            if tmode == 0:
                kw = {}
                show = style is not None
                text = "Tree<'T'>"
            elif tmode == 1:
                kw = {"title": False}
                show, text = False, None
            else:
                kw = {"title": title_text}
                show, text = True, title_text
            got = tree.format(repr=rp, style=arg, join=join, **kw)
            exp = join.join(ref_lines(shape, labels, -1, show, text, style))
            if got != exp:
                return "tree.format(title-mode=%d)" % tmode
        for s in range(n):
            for add_self in (True, False):
                got = nodes[s].format(repr=rp, style=arg, add_self=add_self, join=join)
                exp = join.join(ref_lines(shape, labels, s, add_self, labels[s], style))
                if got != exp:
                    return "node.format(add_self=%s)" % add_self
    # history: everything was rendered once; un-nest the first node that has
    # children and render again against the structure read from the child lists
    if kind == "all" and k in (22, 27, 28):
        victim = None
        for i in range(n):
            if children_of(shape, i):
                victim = i
                break
        if victim is not None:
            nodes[victim].remove(keep_children=True)
            from vlib import build as B

            w = B.walk(tree)
            nodes2 = [nd for nd, _ in w]
            shape2 = tuple(-1 if par is None else [q for q, m in enumerate(nodes2) if m is par][0] for _, par in w)
            labels2 = [nd.data for nd in nodes2]
            for s2 in range(len(nodes2)):
                for add_self in (True, False):
                    got = nodes2[s2].format(repr="{node.data}", style=arg, add_self=add_self, join=join)
                    exp = join.join(ref_lines(shape2, labels2, s2, add_self, labels2[s2], style))
                    if got != exp:
                        return "node.format-after-remove(keep_children)(add_self=%s)" % add_self
            got = tree.format(repr="{node.data}", style=arg, join=join, title="t")
            if got != join.join(ref_lines(shape2, labels2, -1, True, "t", style)):
                return "tree.format-after-remove(keep_children)"
        return ""
    # default style and default repr
    got = tree.format()
    exp = "\n".join(ref_lines(shape, [repr(l) for l in labels], -1, True, "Tree<'T'>", CONNECTORS["round43"]))
    if got != exp:
        return "tree.format(defaults)"
    return ""
