"""C04 - every mutation has exactly its documented effect and no other."""

from vlib import mutate as MU
from vlib import mutprops as MP

ID = "C04"
FUNCTIONS = MP.FUNCTIONS
STUBS = MP.STUBS
ASSUMPTIONS = MP.ASSUMPTIONS + [
    "documented-valid domain: before in {None, False, True, index of an existing child (0 for a childless parent), a child of the target}; other positions are outside C04 (covered by C13/C01)",
]
TIMEOUTS = {"quick": (300, 30), "thorough": (1200, 60)}
BOUNDS = MP.bounds
params = MU.params


def shards(tier):
    return MP.make_shards(tier)


body = MP.c04_oracle
