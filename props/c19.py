"""C19 - load_tree_from_fs mirrors the directory it scanned.

S-fs: `nutree.fs.Path` is replaced by FakePath over an in-memory directory
description (bound parameter: the nesting); entry names are symbolic
one-character strings (every ordering / equality relation between siblings),
file sizes symbolic ints, the listing order of every folder a symbolic
permutation, `sort` a symbolic flag.  The loaded tree is compared with the
description, then saved and re-loaded through the FileSystemTree mappers
(S-json channel).  The native validation pass creates the same directories on
the real file system.
"""

import itertools
import os
import shutil
import tempfile

from vlib import ser
from vlib.stubs import install_json_stub

ID = "C19"
FUNCTIONS = ["fs.load_tree_from_fs", "fs.FileSystemEntry.__init__", "fs.FileSystemTree.serialize_mapper", "fs.FileSystemTree.deserialize_mapper", "Tree.save", "Tree.load", "Node.to_list_iter"]
STUBS = ["S-dict", "S-hash", "S-fmt", "S-fs (FakePath: iterdir/is_dir/is_file/stat/name/ordering as pathlib documents them; FakeOs: walk/listdir/scandir/path over the same model if nutree.fs uses `os`)", "S-json"]
ASSUMPTIONS = [
    "entry names are arbitrary distinct one-character strings per folder; pathlib orders paths component-wise by string comparison",
    "the real OS file system (symlinks, permissions, races, name normalisation) is outside the claim; the native pass uses a real temporary directory with the realised names",
    "modification times are concrete distinct floats, sizes arbitrary ints >= 0",
]
TIMEOUTS = {"quick": (600, 120), "thorough": (3000, 240)}

# directory descriptions: "f" = file, list = folder
DIRS_QUICK = [[], ["f"], ["f", "f"], ["f", []], [["f"], "f"], [[], ["f"]], ["f", "f", ["f"]], [[[]], ["f"]]]
DIRS_MORE = [[[["f"]], "f"], [["f", "f"], []], ["f", ["f", []]], [["f"], ["f"], "f"], ["f", "f", "f"], [[], [], "f"], [["f", ["f"]]], [[["f"]], ["f"]], [["f"], [[]]]]


def BOUNDS(tier):
    return {"directories": len(DIRS_QUICK) + (len(DIRS_MORE) if tier != "quick" else 0), "max_entries": 5, "names": "symbolic str, len 1", "listing_order": "every permutation per folder", "sort": [True, False]}


def _count(d):
    return sum(1 + (_count(e) if isinstance(e, list) else 0) for e in d)


def shards(tier):
    ds = DIRS_QUICK + (DIRS_MORE if tier != "quick" else [])
    return [{"name": "fs-%d-%s" % (i, str(d).replace(" ", "").replace("'", "")), "dir": d, "no_twin": False} for i, d in enumerate(ds)]


def _folders(d, path=()):
    """Yield (path, entries) for d and every sub folder (pre-order)."""
    yield path, d
    for i, e in enumerate(d):
        if isinstance(e, list):
            yield from _folders(e, path + (i,))


def params(desc):
    ps = []
    k = 0
    for path, entries in _folders(desc["dir"]):
        for _ in entries:
            ps.append(("n%d" % k, "str", 1, 1))
            ps.append(("z%d" % k, "int", 0, None))
            k += 1
    for j, (path, entries) in enumerate(_folders(desc["dir"])):
        m = len(entries)
        if m > 1:
            f = 1
            for t in range(2, m + 1):
                f *= t
            ps.append(("o%d" % j, "sel", 0, f - 1))
    ps.append(("sort", "bool", None, None))
    return ps


class FakeStat:
    def __init__(self, size, mtime):
        self.st_size = size
        self.st_mtime = mtime


class FakePath:
    """In-memory stand-in for pathlib.Path as used by nutree.fs."""

    def __init__(self, parts, node=None, *more):
        if isinstance(parts, FakePath):
            self.parts, self.node = parts.parts, parts.node
            # Path(folder, "name", ...): descend by entry name
            for nm in ((node,) if node is not None else ()) + more:
                kid = [c for c in self.node["listing"] if c["name"] == nm][0]
                self.parts, self.node = self.parts + (nm,), kid
        else:
            self.parts, self.node = parts, node

    def __truediv__(self, nm):
        return FakePath(self, nm)

    @property
    def name(self):
        return self.parts[-1]

    def __str__(self):
        return "/fake"

    def is_dir(self):
        return self.node["dir"]

    def is_file(self):
        return not self.node["dir"]

    def stat(self):
        return FakeStat(self.node["size"], self.node["mtime"])

    def iterdir(self):
        for c in self.node["listing"]:
            yield FakePath(self.parts + (c["name"],), c)

    def __lt__(self, other):
        return self.parts < other.parts

    def __eq__(self, other):
        return isinstance(other, FakePath) and self.parts == other.parts

    def __hash__(self):
        return 11


class _FakeOsPath:
    """os.path over FakePath (basename/join/isdir/isfile); anything else is the real os.path."""

    @staticmethod
    def basename(p):
        return p.name if isinstance(p, FakePath) else os.path.basename(p)

    @staticmethod
    def dirname(p):
        return FakePath(p.parts[:-1], None) if isinstance(p, FakePath) else os.path.dirname(p)

    @staticmethod
    def join(p, *names):
        return FakePath(p, *names) if isinstance(p, FakePath) else os.path.join(p, *names)

    @staticmethod
    def isdir(p):
        return p.is_dir() if isinstance(p, FakePath) else os.path.isdir(p)

    @staticmethod
    def isfile(p):
        return p.is_file() if isinstance(p, FakePath) else os.path.isfile(p)

    def __getattr__(self, name):
        return getattr(os.path, name)


class FakeOs:
    """Stand-in for the `os` module inside nutree.fs, should the implementation
    scan with os.walk/os.listdir/os.scandir instead of pathlib (S-fs): the
    same in-memory directory, the same listing order, os.walk's documented
    top-down protocol (in-place edits of `dirnames` steer the walk)."""

    path = _FakeOsPath()

    @staticmethod
    def fspath(p):
        return p if isinstance(p, FakePath) else os.fspath(p)

    @staticmethod
    def listdir(p):
        return [c["name"] for c in p.node["listing"]]

    @staticmethod
    def scandir(p):
        return list(p.iterdir())

    @staticmethod
    def stat(p):
        return p.stat()

    @staticmethod
    def walk(top, topdown=True, onerror=None, followlinks=False):
        dirnames = [c["name"] for c in top.node["listing"] if c["dir"]]
        filenames = [c["name"] for c in top.node["listing"] if not c["dir"]]
        if topdown:
            yield top, dirnames, filenames
        for nm in list(dirnames):
            yield from FakeOs.walk(FakePath(top, nm), topdown, onerror, followlinks)
        if not topdown:
            yield top, dirnames, filenames

    def __getattr__(self, name):
        return getattr(os, name)


def materialise(desc, x):
    """Turn the description + inputs into an in-memory directory model."""
    counter = {"k": 0, "j": 0}

    def make(entries):
        j = counter["j"]
        counter["j"] += 1
        kids = []
        for e in entries:
            k = counter["k"]
            counter["k"] += 1
            kids.append({"name": x["n%d" % k], "dir": isinstance(e, list), "size": x["z%d" % k], "mtime": 1000.5 + k, "_e": e})
        m = len(kids)
        order = list(range(m))
        if m > 1:
            order = list(list(itertools.permutations(range(m)))[x["o%d" % j]])
        for kid in kids:
            if kid["dir"]:
                sub = make(kid["_e"])
                kid["children"] = sub["children"]
                kid["listing"] = sub["listing"]
        return {"children": kids, "listing": [kids[i] for i in order]}

    root = make(desc["dir"])
    root.update(name="root", dir=True, size=0, mtime=0.0)
    return root


def names_distinct(folder):
    ks = folder["children"]
    for i in range(len(ks)):
        for j in range(i + 1, len(ks)):
            if ks[i]["name"] == ks[j]["name"]:
                return False
    for k in ks:
        if k["dir"] and not names_distinct(k):
            return False
    return True


def expected(folder, sort):
    if sort:
        files = sorted([k for k in folder["listing"] if not k["dir"]], key=lambda k: k["name"])
        dirs = sorted([k for k in folder["listing"] if k["dir"]], key=lambda k: k["name"])
        order = files + dirs
    else:
        order = folder["listing"]
    return [(k, expected(k, sort) if k["dir"] else []) for k in order]


def compare(children, exp, ordered=True):
    """`ordered=False` (sort=False): the property fixes no order for an unsorted
    scan, so each folder's nodes are matched to the entries by name (names are
    distinct per folder)."""
    if len(children) != len(exp):
        return "entry-count"
    if not ordered:
        left = list(children)
        matched = []
        for k, sub in exp:
            hit = [nd for nd in left if nd.data.name == k["name"]]
            if not hit:
                return "name"
            left = [nd for nd in left if nd is not hit[0]]
            matched.append(hit[0])
        children = matched
    for nd, (k, sub) in zip(children, exp):
        e = nd.data
        if e.name != k["name"]:
            return "name-or-order"
        if bool(e.is_dir) != k["dir"]:
            return "is_dir"
        if not k["dir"]:
            if e.size != k["size"]:
                return "size"
            if e.mdate != k["mtime"]:
                return "mdate"
        r = compare(nd.children, sub, ordered)
        if r:
            return r
    return ""


def setup_symbolic(desc):
    install_json_stub()


def body(ctx, desc, x):
    import nutree.fs as nfs
    from nutree.fs import FileSystemTree, load_tree_from_fs

    model = materialise(desc, x)
    if not names_distinct(model):
        return ""  # a folder cannot hold two entries with one name
    sort = x["sort"]
    ctx.mark()
    if ctx.native:
        base = tempfile.mkdtemp(prefix="nutree-c19-", dir="/var/tmp")
        try:
            ok = _mkfs(base, model)
            if ok:  # else: names the real file system cannot represent - in-memory model only
                tree = load_tree_from_fs(base, sort=True)  # real listing order is not controllable: sorted form only
                exp = expected(model, True)
                c = compare(tree.children, _native_exp(exp))
                if c:
                    return "load:" + c
        finally:
            shutil.rmtree(base, ignore_errors=True)
    saved = nfs.Path
    saved_os = getattr(nfs, "os", None)
    nfs.Path = FakePath
    if saved_os is not None:
        nfs.os = FakeOs()
    try:
        tree = load_tree_from_fs(FakePath(("root",), model), sort=sort)
    finally:
        nfs.Path = saved
        if saved_os is not None:
            nfs.os = saved_os
    if not isinstance(tree, FileSystemTree):
        return "load:class"
    exp = expected(model, sort)
    c = compare(tree.children, exp, ordered=bool(sort))
    if c:
        return "load:" + c
    # save -> load through the FileSystemTree mappers
    fp = ser.open_channel(ctx)
    tree.save(fp)
    ser.rewind(fp)
    t2 = FileSystemTree.load(fp)
    if not isinstance(t2, FileSystemTree):
        return "reload:class"
    c = compare(t2.children, exp, ordered=bool(sort))
    if c:
        return "reload:" + c
    if not sort:
        # save/load must preserve whatever order the scan produced
        def _names(n):
            return [(c.data.name, _names(c)) for c in n.children]

        if _names(tree.system_root) != _names(t2.system_root):
            return "reload:order"
    return ""


def _mkfs(base, folder):
    for k in folder["children"]:
        nm = k["name"]
        if nm in (".", "/", "\x00") or not nm.isprintable():
            return False
        p = os.path.join(base, nm)
        if k["dir"]:
            os.mkdir(p)
            if not _mkfs(p, k):
                return False
        else:
            with open(p, "wb") as fp:
                fp.write(b"x" * min(int(k["size"]), 64))
            os.utime(p, (k["mtime"], k["mtime"]))
    return True


def _native_exp(exp):
    out = []
    for k, sub in exp:
        k2 = dict(k)
        k2["size"] = min(int(k["size"]), 64)
        out.append((k2, _native_exp(sub)))
    return out
