"""C10 - relationship queries agree with the tree's actual shape.

Per shape (bound parameter) the labels of all nodes are unbounded symbolic
integers (siblings may compare equal), data_ids are explicit and distinct, the
node pair (i, j) and `level` are symbolic.  The oracle recomputes every answer
from the harness' own parent vector.
"""

from vlib.build import (
    ancestors_of,
    build,
    children_of,
    depth_of,
    descendants_of,
    shape_str,
    shapes_upto,
)

ID = "C10"
FUNCTIONS = [
    "Node.parent", "Node.up", "Node.children", "Node.get_children", "Node.first_child",
    "Node.last_child", "Node.get_siblings", "Node.first_sibling", "Node.last_sibling",
    "Node.prev_sibling", "Node.next_sibling", "Node.get_index", "Node.depth", "Node.calc_depth",
    "Node.calc_height", "Tree.calc_height", "Node.get_top", "Node.get_parent_list", "Node.get_path",
    "Node.count_descendants", "Node.is_top", "Node.is_leaf", "Node.is_first_sibling",
    "Node.is_last_sibling", "Node.has_children", "Node.is_descendant_of", "Node.is_ancestor_of",
    "Node.get_common_ancestor", "Node.is_system_root", "Tree.first_child", "Tree.last_child",
]
STUBS = ["S-dict", "S-hash", "S-fmt"]
ASSUMPTIONS = [
    "labels are integers >= 1 (any value, equal labels allowed); data_ids explicit and pairwise distinct",
    "get_path is checked with a constant repr (formatting a symbolic int does not exhaust)",
    "history shards: every query is asked once, then one mutation (move, remove, add, sort; all arguments symbolic) is applied and all queries are asked again",
]
TIMEOUTS = {"quick": (900, 60), "thorough": (3000, 120)}


def BOUNDS(tier):
    n = 4 if tier == "quick" else 5
    return {"max_nodes": n, "shapes": len(shapes_upto(n, 1)), "labels": "unbounded ints >= 1", "pair": "all (i, j), all flags, levels 0..n+2 iterated inside every path"}


HIST_OPS = ["move", "remove", "add", "sort"]


def shards(tier):
    n = 4 if tier == "quick" else 5
    out = []
    for sh in shapes_upto(n, 1):
        out.append({"name": "rel-%s" % shape_str(sh), "shape": list(sh)})
    # history shards: all queries are asked once (warming any cache), one
    # mutation is applied, then all queries must agree with the new structure
    # (4-node history shards took > 90 min in the thorough tier: bounded at 3,
    # plus the 4-node shapes for the cheapest state-changing operation)
    for op in (["move", "remove"] if tier == "quick" else HIST_OPS):  # quick: the two re-parenting operations
        for sh in shapes_upto(3, 2) + (shapes_upto(4, 4) if (tier != "quick" and op == "remove") else []):
            out.append({"name": "hist-%s-%s" % (op, shape_str(sh)), "kind": "hist", "op": op, "shape": list(sh), "regime": "R1", "cost": 20})
    return out


def params(desc):
    if desc.get("kind") == "hist":
        from vlib import mutate as MU

        return MU.params(desc)
    n = len(desc["shape"])
    return [("l%d" % i, "int", 1, None) for i in range(n)]


def _is(a, b):
    return a is b


def _same_list(a, b):
    if len(a) != len(b):
        return False
    for x, y in zip(a, b):
        if x is not y:
            return False
    return True


def height(shape, i):
    ds = descendants_of(shape, i)
    if not ds:
        return 0
    return max(depth_of(shape, d) for d in ds) - depth_of(shape, i)


def _warm(tree, nodes, model=None):
    for nd in nodes:
        nd.depth(), nd.calc_depth(), nd.calc_height(), nd.get_top(), nd.get_parent_list(), nd.get_index()
        nd.count_descendants(), nd.is_top(), nd.is_leaf(), nd.get_siblings(), nd.first_sibling(), nd.last_sibling()
        nd.prev_sibling(), nd.next_sibling(), nd.is_first_sibling(), nd.is_last_sibling(), nd.up()
        for other in nodes:
            nd.is_descendant_of(other), nd.get_common_ancestor(other)
    tree.calc_height()


def _hist(ctx, desc, x):
    from vlib import build as B
    from vlib import mutate as MU

    r = MU.step(ctx, desc, x, pre_hook=_warm)
    if r.skip or r.exc is not None or r.pre_clause:
        return ""
    ctx.mark()
    w = B.walk(r.tree)
    if w is None:
        return ""  # structural corruption is C01's subject
    nodes2 = [nd for nd, _ in w]
    shape2 = []
    for nd, par in w:
        shape2.append(-1 if par is None else [k for k, m in enumerate(nodes2) if m is par][0])
    n2 = len(nodes2)
    for i in range(n2):
        for j in range(n2):
            for flags in (0, 7) if j == 0 else (0,):  # all flags off / all on (the fresh-tree shards vary them singly)
                c = _check_pair(tuple(shape2), r.tree, nodes2, i, j, list(range(0, n2 + 3)) if j == 0 else [],
                                bool(flags & 1), bool(flags & 2), bool(flags & 4))
                if c:
                    return "after-%s:%s@%d,%d" % (desc["op"], c, i, j)
    return ""


def body(ctx, desc, x):
    if desc.get("kind") == "hist":
        return _hist(ctx, desc, x)
    shape = tuple(desc["shape"])
    n = len(shape)
    labels = [x["l%d" % k] for k in range(n)]
    ids = [1000 + k for k in range(n)]
    tree, nodes = build(shape, labels, ids=ids)
    ctx.mark()
    # every node, every ordered pair, every level and flag combination is
    # checked on every path; the solver quantifies over the labels
    for i in range(n):
        for j in range(n):
            for flags in range(8) if j == 0 else (0,):
                r = _check_pair(shape, tree, nodes, i, j, list(range(0, n + 3)) if j == 0 else [],
                                bool(flags & 1), bool(flags & 2), bool(flags & 4))
                if r:
                    return "%s@%d,%d" % (r, i, j)
    return ""


def _check_pair(shape, tree, nodes, i, j, levels, add_self, bottom_up, leaves):
    n = len(shape)
    a, b = nodes[i], nodes[j]
    N = lambda k: None if k is None or k < 0 else nodes[k]  # noqa: E731

    p = shape[i]
    sib_idx = children_of(shape, p)
    sibs = [nodes[k] for k in sib_idx]
    pos = sib_idx.index(i)
    kids = [nodes[k] for k in children_of(shape, i)]
    anc = ancestors_of(shape, i)  # nearest first

    if a.parent is not N(p):
        return "parent"
    if not _same_list(a.children, kids) or not _same_list(a.get_children(), kids):
        return "children"
    if a.first_child() is not (kids[0] if kids else None):
        return "first_child"
    if a.last_child() is not (kids[-1] if kids else None):
        return "last_child"
    if a.has_children() != bool(kids) or a.is_leaf() != (not kids):
        return "has_children/is_leaf"
    if not _same_list(a.get_siblings(add_self=True), sibs):
        return "get_siblings+self"
    if not _same_list(a.get_siblings(), [s for s in sibs if s is not a]):
        return "get_siblings"
    if a.first_sibling() is not sibs[0] or a.last_sibling() is not sibs[-1]:
        return "first/last_sibling"
    if a.is_first_sibling() != (pos == 0) or a.is_last_sibling() != (pos == len(sibs) - 1):
        return "is_first/is_last_sibling"
    if a.get_index() != pos:
        return "get_index"
    if a.prev_sibling() is not (sibs[pos - 1] if pos > 0 else None):
        return "prev_sibling"
    if a.next_sibling() is not (sibs[pos + 1] if pos < len(sibs) - 1 else None):
        return "next_sibling"
    d = depth_of(shape, i)
    if a.depth() != d or a.calc_depth() != d:
        return "depth"
    if a.calc_height() != height(shape, i):
        return "calc_height"
    th = max(depth_of(shape, k) for k in range(n))
    if tree.calc_height() != th:
        return "tree.calc_height"
    top = anc[-1] if anc else i
    if a.get_top() is not nodes[top]:
        return "get_top"
    if a.is_top() != (p < 0) or a.is_system_root():
        return "is_top"
    # up(level)
    chain = [N(k) for k in anc] + [tree.system_root]
    for lev in levels:
        try:
            r = a.up(lev)
            if lev < 1 or lev > len(chain) or r is not chain[lev - 1]:
                return "up"
        except ValueError:
            if 1 <= lev <= len(chain):
                return "up:refused"
    # parent list
    exp = [nodes[k] for k in reversed(anc)]
    if add_self:
        exp = exp + [a]
    if bottom_up:
        exp = list(reversed(exp))
    if not _same_list(a.get_parent_list(add_self=add_self, bottom_up=bottom_up), exp):
        return "get_parent_list"
    pth = a.get_path(add_self=add_self, repr="n", separator="/")
    cnt = len(anc) + (1 if add_self else 0)
    if pth != "/" + "/".join(["n"] * cnt):
        return "get_path"
    ds = descendants_of(shape, i)
    if leaves:
        ds = [k for k in ds if not children_of(shape, k)]
    if a.count_descendants(leaves_only=leaves) != len(ds):
        return "count_descendants"
    # pair queries
    b_anc = ancestors_of(shape, j)
    if a.is_ancestor_of(b) != (i in b_anc) or b.is_descendant_of(a) != (i in b_anc):
        return "is_ancestor_of/is_descendant_of"
    if a.is_descendant_of(b) != (j in anc):
        return "is_descendant_of"
    ca = None
    sa = [i] + anc
    sb = [j] + b_anc
    for k in sa:
        if k in sb:
            ca = k
            break
    if a.get_common_ancestor(b) is not N(ca):
        return "get_common_ancestor"
    tops = [nodes[k] for k in children_of(shape, -1)]
    if tree.first_child() is not tops[0] or tree.last_child() is not tops[-1]:
        return "tree.first/last_child"
    if not _same_list(tree.children, tops) or not _same_list(tree.get_toplevel_nodes(), tops):
        return "tree.children"
    return ""
