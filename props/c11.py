"""C11 - diff() marks exactly the one-sided children and projects back to both inputs.

Per pair of shapes (bound parameters) all labels of both trees are unbounded
symbolic integers (every overlap / clone / move pattern), `ordered` is
symbolic, and both values of `reduce` are computed on every path.  Each clause
of the property statement is a separate assertion (DESIGN.md 5/C11).
"""

from vlib import build as B
from vlib.build import build, shape_str, shapes, shapes_upto

ID = "C11"
FUNCTIONS = ["diff.diff_tree", "diff.compare", "diff._find_child", "diff._copy_children", "Tree.diff", "Node.add_child", "Node.set_meta", "Node.get_clones", "Tree.filter", "Node.filter"]
STUBS = ["S-dict", "S-hash", "S-set (set in nutree.diff)", "S-fmt"]
ASSUMPTIONS = [
    "both trees are default-id Trees whose labels are integers >= 1 (any value)",
    "nodes are identified by their path of data values (children of one parent have distinct data)",
    "clause (c)/(d) are asserted below nodes present in both inputs only; the interior of an added or removed subtree is not constrained (statement: 'below every node present in both')",
]
TIMEOUTS = {"quick": (600, 60), "thorough": (3000, 120)}

QUICK3 = [((-1, 0, 0), (-1, 0, 1)), ((-1, 0, -1), (-1, -1, 1)), ((-1, -1, -1), (-1, 0, 0)), ((-1, 0, 1), (-1, -1)), ((-1, 0), (-1, 0, 0))]


def BOUNDS(tier):
    if tier == "quick":
        return {"shape_pairs": "all with n0, n1 <= 2 plus %d pairs with a 3-node side" % len(QUICK3), "labels": "unbounded ints >= 1", "ordered": "symbolic", "reduce": "both"}
    return {"shape_pairs": "all with n0, n1 <= 3", "labels": "unbounded ints >= 1", "ordered": "symbolic", "reduce": "both"}


def shards(tier):
    out = []
    if tier == "quick":
        pairs = [(a, b) for a in shapes_upto(2) for b in shapes_upto(2)] + QUICK3
    else:
        pairs = [(a, b) for a in shapes_upto(3) for b in shapes_upto(3)]
    for a, b in pairs:
        out.append({"name": "diff-%s~%s" % (shape_str(a), shape_str(b)), "a": list(a), "b": list(b), "cost": (len(a) + len(b)) * 10})
    return out


def params(desc):
    return [("a%d" % i, "int", 1, None) for i in range(len(desc["a"]))] + [("b%d" % i, "int", 1, None) for i in range(len(desc["b"]))] + [("ordered", "bool", None, None)]


# -- path helpers (no hashing: labels may be symbolic) -------------------------
def node_paths(tree):
    """[(path, node)] in pre-order; path = list of data from the top."""
    out = []

    def rec(children, prefix):
        for c in children:
            p = prefix + [c.data]
            out.append((p, c))
            rec(c.children, p)

    rec(tree.children, [])
    return out


def peq(p, q):
    if len(p) != len(q):
        return False
    for a, b in zip(p, q):
        if a != b:
            return False
    return True


def find_path(paths, p):
    for q, n in paths:
        if peq(p, q):
            return n
    return None


def same_path_set(ps, qs):
    if len(ps) != len(qs):
        return False
    for p, _ in ps:
        if find_path(qs, p) is None:
            return False
    return True


def body(ctx, desc, x):
    from nutree.diff import DiffClassification as DC

    sa, sb = tuple(desc["a"]), tuple(desc["b"])
    la = [x["a%d" % i] for i in range(len(sa))]
    lb = [x["b%d" % i] for i in range(len(sb))]
    ordered = x["ordered"]
    try:
        t0, n0 = build(sa, la, name="T0")
        t1, n1 = build(sb, lb, name="T1")
    except Exception:  # noqa: BLE001 - not constructible (duplicate sibling)
        return ""
    ctx.mark()
    obs0, obs1 = B.observe(t0, n0), B.observe(t1, n1)
    P0, P1 = node_paths(t0), node_paths(t1)

    # (a) identical copy: no marks
    c0 = t0.copy()
    for od in (False, True):
        d = t0.diff(c0, ordered=od)
        for _, nd in node_paths(d):
            if nd.meta:
                return "a:identical-copy-has-marks"
        if not same_path_set(node_paths(d), P0):
            return "a:identical-copy-shape"

    res = t0.diff(t1, ordered=ordered)
    R = node_paths(res)
    ONE0 = (DC.REMOVED, DC.MOVED_TO)
    ONE1 = (DC.ADDED, DC.MOVED_HERE)

    def dc(nd):
        return nd.get_meta("dc")

    # (b) minus removed/moved-away == T1's parent->child relation
    keep = [(p, nd) for p, nd in R if dc(nd) not in ONE0]
    if not same_path_set(keep, P1):
        return "b:projection-to-second-tree"

    # (c) + (d) + (f) below every node present in both inputs
    both = [([], res.system_root, t0.system_root, t1.system_root)]
    for p, nd in R:
        a, b = find_path(P0, p), find_path(P1, p)
        if a is not None and b is not None:
            both.append((p, nd, a, b))
    for p, nd, a, b in both:
        ch0 = [c.data for c in a.children]
        ch1 = [c.data for c in b.children]
        rest = [c.data for c in nd.children if dc(c) not in ONE1]
        if len(rest) != len(ch0):
            return "c:projection-to-first-tree:count"
        for u, v in zip(rest, ch0):
            if u != v:
                return "c:projection-to-first-tree:order"
        for c in nd.children:
            in0 = [i for i, v in enumerate(ch0) if v == c.data]
            in1 = [i for i, v in enumerate(ch1) if v == c.data]
            m = dc(c)
            if in0 and not in1:
                if m not in ONE0:
                    return "d:t0-only-child-not-marked-removed"
            elif in1 and not in0:
                if m not in ONE1:
                    return "d:t1-only-child-not-marked-added"
            elif in0 and in1:
                if m in ONE0 or m in ONE1:
                    return "d:two-sided-child-carries-one-sided-mark"
                # (f) order marks
                if isinstance(m, tuple):
                    if not ordered:
                        return "f:order-mark-without-ordered"
                    if m[0] != in0[0] or m[1] != in1[0]:
                        return "f:order-mark-wrong-index"
                elif m is not None:
                    return "f:unknown-mark"
                elif ordered and in0[0] != in1[0]:
                    return "f:order-change-not-marked"
            else:
                return "d:child-from-nowhere"
    # no node may carry an unknown classification
    for p, nd in R:
        m = dc(nd)
        if not (m is None or m in ONE0 or m in ONE1 or isinstance(m, tuple)):
            return "d:unknown-mark"

    # (e) moved-here has a moved-away partner with the same data
    for p, nd in R:
        if dc(nd) == DC.MOVED_HERE:
            ok = False
            for q, other in R:
                if dc(other) == DC.MOVED_TO and other.data == nd.data:
                    ok = True
            if not ok:
                return "e:moved-here-without-moved-away"

    # (g) reduce keeps exactly the marked nodes and their ancestors
    red = t0.diff(t1, ordered=ordered, reduce=True)
    RR = node_paths(red)
    want = []
    for p, nd in R:
        if dc(nd):
            for k in range(1, len(p) + 1):
                q = p[:k]
                if find_path(want, q) is None:
                    want.append((q, find_path(R, q)))
    if not same_path_set(RR, want):
        return "g:reduce-set"
    for p, nd in RR:
        if dc(nd) != dc(find_path(R, p)):
            return "g:reduce-marks"
    c = B.wf(res) or B.wf(red)
    if c:
        return "result:" + c

    # (h) inputs unmodified
    if B.obs_equal(B.observe(t0, n0), obs0) or B.obs_equal(B.observe(t1, n1), obs1):
        return "h:input-modified"
    return ""
