"""C15 - kind-aware queries of a typed tree equal filtering the child list by kind.

A parent (the tree itself, or a nested node) gets m children whose kinds are
symbolic selectors into a pool of three kind names (the code only compares
kinds for equality; symbolic z3 strings were tried and are too slow once the
stored and the queried strings must be distinct objects).  On every
path every child position, every kind present plus an absent one, and both
values of any_kind/add_self are checked against list comprehensions over the
child list.
"""

ID = "C15"
FUNCTIONS = [
    "TypedNode.get_children", "TypedNode.first_child", "TypedNode.last_child", "TypedNode.has_children",
    "TypedNode.get_siblings", "TypedNode.first_sibling", "TypedNode.last_sibling", "TypedNode.prev_sibling",
    "TypedNode.next_sibling", "TypedNode.get_index", "TypedNode.is_first_sibling", "TypedNode.is_last_sibling",
    "TypedTree.first_child", "TypedTree.last_child", "TypedTree.iter_by_type", "TypedTree.add_child", "TypedNode.add_child",
]
STUBS = ["S-dict", "S-hash", "S-fmt"]
ASSUMPTIONS = [
    "kinds are symbolic selectors into a pool of three kind names (every same/different pattern; the code only compares kinds for equality); stored and queried kind strings are equal but distinct objects; labels are distinct concrete strings",
    "the queried kinds are every kind present among the children plus one absent kind",
]
TIMEOUTS = {"quick": (300, 30), "thorough": (1200, 60)}


def BOUNDS(tier):
    return {"max_children": 6 if tier == "quick" else 8, "parents": ["tree (top level)", "nested node", "nested node with a grandchild"], "kinds": "symbolic selector over 3 names"}


def shards(tier):
    M = 6 if tier == "quick" else 8
    out = []
    for m in range(0, M + 1):
        for where in ("top", "nested"):
            out.append({"name": "kinds-%s-%d" % (where, m), "m": m, "where": where, "no_twin": m == 0 and where == "top"})
    return out


def params(desc):
    return [("k%d" % i, "sel", 0, 2) for i in range(desc["m"])]


def _same(a, b):
    if len(a) != len(b):
        return False
    for x, y in zip(a, b):
        if x is not y:
            return False
    return True


def body(ctx, desc, x):
    from nutree.typed_tree import ANY_KIND, TypedTree

    m = desc["m"]
    # two-character kinds built at run time: the query strings below are equal
    # to the stored kinds but distinct objects (an `is` comparison must not pass)
    kinds = ["kind" + str(x["k%d" % i]) for i in range(m)]
    tree = TypedTree("T")
    if desc["where"] == "top":
        parent = tree
        pnode = tree.system_root
    else:
        parent = pnode = tree.add("P", kind="pp")
    ch = []
    for i in range(m):
        ch.append(parent.add("c%d" % i, kind=kinds[i]))
    if desc["where"] == "nested" and m:
        ch[0].add("g", kind=kinds[0])  # a grandchild must not disturb the queries
    ctx.mark()
    ABSENT = "zz"
    qs = ["kind" + str(x["k%d" % i]) for i in range(m)] + [ABSENT]

    # parent-side queries
    for q in qs:
        exp = [c for c in ch if c.kind == q]
        if not _same(pnode.get_children(q), exp):
            return "get_children(kind)"
        if pnode.first_child(q) is not (exp[0] if exp else None):
            return "first_child(kind)"
        if pnode.last_child(q) is not (exp[-1] if exp else None):
            return "last_child(kind)"
        if pnode.has_children(q) != bool(exp):
            return "has_children(kind)"
        if desc["where"] == "top":
            if tree.first_child(q) is not (exp[0] if exp else None) or tree.last_child(q) is not (exp[-1] if exp else None):
                return "tree.first/last_child(kind)"
        allq = [n for n in tree.iterator() if n.kind == q]
        if not _same(list(tree.iter_by_type(q)), allq):
            return "iter_by_type(kind)"
    if not _same(pnode.get_children(ANY_KIND), ch):
        return "get_children(ANY_KIND)"
    if pnode.first_child(ANY_KIND) is not (ch[0] if ch else None) or pnode.last_child(ANY_KIND) is not (ch[-1] if ch else None):
        return "first/last_child(ANY_KIND)"
    if pnode.has_children(ANY_KIND) != bool(ch):
        return "has_children(ANY_KIND)"
    if not _same(list(tree.iter_by_type(ANY_KIND)), list(tree.iterator())):
        return "iter_by_type(ANY_KIND)"

    # node-side queries
    for i, nd in enumerate(ch):
        same = [c for c in ch if c.kind == nd.kind]
        j = [t for t, c in enumerate(same) if c is nd][0]
        if not _same(nd.get_siblings(add_self=True), same):
            return "get_siblings(add_self)"
        if not _same(nd.get_siblings(), [c for c in same if c is not nd]):
            return "get_siblings"
        if not _same(nd.get_siblings(add_self=True, any_kind=True), ch):
            return "get_siblings(add_self,any_kind)"
        if not _same(nd.get_siblings(any_kind=True), [c for c in ch if c is not nd]):
            return "get_siblings(any_kind)"
        if nd.first_sibling() is not same[0] or nd.last_sibling() is not same[-1]:
            return "first/last_sibling"
        if nd.first_sibling(any_kind=True) is not ch[0] or nd.last_sibling(any_kind=True) is not ch[-1]:
            return "first/last_sibling(any_kind)"
        if nd.prev_sibling() is not (same[j - 1] if j > 0 else None):
            return "prev_sibling"
        if nd.next_sibling() is not (same[j + 1] if j + 1 < len(same) else None):
            return "next_sibling"
        if nd.prev_sibling(any_kind=True) is not (ch[i - 1] if i > 0 else None):
            return "prev_sibling(any_kind)"
        if nd.next_sibling(any_kind=True) is not (ch[i + 1] if i + 1 < m else None):
            return "next_sibling(any_kind)"
        if nd.get_index() != j:
            return "get_index"
        if nd.get_index(any_kind=True) != i:
            return "get_index(any_kind)"
        if nd.is_first_sibling() != (j == 0) or nd.is_last_sibling() != (j == len(same) - 1):
            return "is_first/last_sibling"
        if nd.is_first_sibling(any_kind=True) != (i == 0) or nd.is_last_sibling(any_kind=True) != (i == m - 1):
            return "is_first/last_sibling(any_kind)"
    return ""
