#!/bin/sh
# tools/seedtest.sh <seed-dir> <Cxx> [more checks...]
# Applies <seed-dir>/patch.diff to a scratch worktree of /repo (outside /repo
# and /verif), confirms that the pinned suite still passes and that demo.py
# fails with the patch and passes without, then runs the given checks against
# the patched copy (VERIF_REPO).  The worktree is removed afterwards.
seed="$1"; shift
wt=$(mktemp -d /var/tmp/nutree-seed.XXXXXX)
rmdir "$wt"
git -C /repo worktree add -q --detach "$wt" HEAD || exit 2
cleanup() { git -C /repo worktree remove --force "$wt" >/dev/null 2>&1; rm -rf "$wt"; }
trap cleanup EXIT
echo "== demo on clean tree"
(cd "$wt" && PYTHONPATH="$wt" /venv/bin/python "$seed/demo.py" >/dev/null 2>&1); echo "demo(clean) rc=$?"
git -C "$wt" apply "$seed/patch.diff" || { echo "PATCH DOES NOT APPLY"; exit 2; }
echo "== suite on patched tree"
VERIF_REPO="$wt" /verif/tools/runtests.sh
(cd "$wt" && PYTHONPATH="$wt" /venv/bin/python "$seed/demo.py" >/dev/null 2>&1); echo "demo(patched) rc=$?"
for c in "$@"; do
  echo "== check $c on patched tree"
  (cd /verif && VERIF_REPO="$wt" VERIF_EVIDENCE_DIR="$wt/.evidence" VERIF_REPLAY_DIR="$wt/.replays" ./check "$c" --tier "${TIER:-quick}" > "$wt/.out" 2>&1; echo "check $c rc=$?")
  grep -E "VIOLATION|HARNESS|INCONCLUSIVE|KNOWN|tier=" "$wt/.out" | cut -c1-220 | head -6
done
