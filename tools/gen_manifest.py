#!/usr/bin/env python3
"""Regenerates /verif/MANIFEST.json from the table below (keeps it valid)."""

import json
import os
import sys

VERIF = os.path.dirname(os.path.dirname(os.path.abspath(__file__)))
sys.path.insert(0, VERIF)

# id -> (claimed?, level text, note, technique, design_ref, reason if not claimed)
CHECKS = {}


def claim(pid, text, note, technique, ref):
    CHECKS[pid] = dict(text=text, note=note, technique=technique, ref=ref)


XH = "symbolic execution of the real nutree code with CrossHair/z3 (bounded: shape and operation kind enumerated as bound parameters, all other inputs solver-quantified); counterexamples replayed natively"
NOTE = "Trusted: CrossHair 0.0.110 path exhaustion and Python modelling, z3, stubs S-dict/S-hash/S-set/S-fmt under their stated contracts (DESIGN 3.4), CPython 3.11 for symbolic runs vs 3.12 for replays. Bounds and exclusions are in the evidence file."

Z3S = "z3 scheduling query (Int timestamps, program order, lock mutual exclusion) over lock/read traces extracted from the real code on every run; sat schedules replayed with real threads"
STEP = " One inductive step from every constructible pre-state up to the node bound (all shapes, all label/clone patterns as unbounded symbolic ints, every operation and argument selector); CONFIRMED per shard = z3 showed no further path exists."

claim("C01", "Bounded model checking of one mutation step on the real code: after every operation (whether it raised or not) an independent walk must find a well-formed tree (owner, single parent, once-by-identity in the child list, no cycles, count == reachable, unique node ids, removed nodes gone)." + STEP, NOTE, XH, "5/C01")
claim("C02", "Same step driver as C01; after the step every lookup by data_id (present ids, ids present before, new ids), get_clones, is_clone, count_unique and the data_id rule are compared with a walk of the tree. A second shard family covers the data flavours named in the property (str, int, tuple, frozen dataclass, DictWrapper, objects keyed by a callback) with symbolic pool selectors and one symbolic mutation, checking lookups by data object, data_id, node_id, `in` and tree[key]." + STEP, NOTE, XH, "5/C02")
claim("C03", "Same step driver; the specification model says when an operation would create two siblings with one data_id: then the call must raise UniqueConstraintError, and after every step no parent may hold duplicate ids (routes: add variants, copy_to, add(tree), move_to, remove(keep_children), set_data); from_dict/load collisions are covered through the add route they use." + STEP, NOTE, XH, "5/C03")
claim("C04", "Same step driver; the observable state after a documented-valid call must equal the independent executable specification (vlib/spec.py) applied to the same inputs, incl. identity of all untouched nodes, return value, source tree untouched; calls the documentation requires to be refused must raise." + STEP, NOTE, XH, "5/C04")
claim("C05", "Symbolic save()->load() round trip through an S-json channel for five tree flavours (plain/str, explicit ids, callback mappers, typed, derived-class mappers), symbolic labels/ids/kinds selectors (all clone patterns), key_map/value_map in {default, off, custom}, meta flag; loaded class, shape, data, data_ids, kinds, clone groups, file_meta compared. Compression methods and path targets are run concretely in the native validation pass (zipfile/C codecs are not symbolically executable).", NOTE + " S-json: JSON round-trips the documents unchanged (validated natively with the real json module).", XH, "5/C05")
claim("C06", "Per shape up to the node bound: every ordered iterator from a symbolic start node equals an independent reference traversal; visit() with a symbolic signal position, 11 signal kinds and an unbounded symbolic carried value is compared with the reference sequence truncated/pruned per signal, return value and memo checked; RANDOM_ORDER under every permutation of a symbolic shuffle.", NOTE, XH, "5/C06")
claim("C07", "Per copy operation x source shape x flavour (ints, explicit ids, keyed objects, typed): the copy must mirror the source branch (same data objects, data_ids, kinds, order, all new nodes), the source observation must be unchanged, and after one symbolic follow-up mutation on either side the other side's observation must be unchanged. Copy-in operations within one tree are additionally decided by C04's oracle.", NOTE, XH, "5/C07")
claim("C08", "Per shape: one symbolic verdict per node out of 8 (True/False/None/Skip/Skip(and_self=False)/Select/Stop/StopIteration), returned or raised, symbolic start; filter(), filtered(), copy(predicate=), Node.copy(add_self=False, predicate=) compared with the keep-set of an independent reading of the user guide; in-place vs copy agreement, source untouched, result well-formed. The listed known finding (duplicated accepted nodes in the copying forms, pinned by the test-suite) is tolerated only in exactly its known form.", NOTE, XH, "5/C08")
claim("C09", "Per shape with symbolic name selectors (clones) and symbolic limit k: find_all/find_first/find on tree and every node for 8 patterns/predicates vs a reference pre-order filter with Python's re; lookups by data/data_id with limits on index and scan path; tree[key] for every key kind incl. resolution order, errors, del.", NOTE, XH, "5/C09")
claim("C10", "Bounded model checking: for every ordered forest up to the node bound (quick 4, thorough 5) with unbounded symbolic integer labels (equal-comparing siblings included) every relationship query for every node, ordered pair, level and flag is compared with answers recomputed from the parent vector.", NOTE, XH, "5/C10")
claim("C11", "Per pair of shapes all labels of both trees are unbounded symbolic ints (every overlap/clone/move pattern), ordered symbolic, reduce both ways; clauses a-h of the statement asserted separately (no marks on identical copy, both projections, marks exactly on one-sided children, moved-here has moved-away partner, order marks carry true indexes, reduce = marked nodes + ancestors, inputs unmodified).", NOTE + " S-set: list-backed set in nutree.diff.", XH, "5/C11")
claim("C12", "Writer: the document handed to json.dump equals an independent encoder of the documented layout for the C05 trees/options, plus structural rules (parent/clone references point to earlier entries). Reader: encoder documents (with references and with clones spelled out), the user guide's three literal examples and six malformed headers load to the described tree / are rejected with RuntimeError.", NOTE, XH, "5/C12")
claim("C13", "Part A (refusals): same step driver as C01-C04; whenever the call raised, the observation must equal the pre-state and the C01-C03 predicates must hold. Part B (callback faults): for 14 operations taking a user callback (id calculation, predicate, match, sort key, visitor, serialize/deserialize mappers, dot mappers) the k-th invocation raises (k symbolic); C01-C03 predicates must hold afterwards and read-only operations must leave the observation unchanged.", NOTE, XH, "5/C13")
claim("C14", "to_dict_list() equals an independent nested encoding and from_dict() of it - directly and after a JSON round trip - reproduces shape, order, data, custom ids and clone partition, for string trees, explicit ids and keyed objects with inverse mappers; both root representations.", NOTE, XH, "5/C14")
claim("C15", "A parent (tree or nested node) with up to 6 (thorough 8) children whose kinds are symbolic selectors over three kind names (all same/different patterns; stored and queried strings are distinct objects): every kind-aware query for every child position, every present kind plus an absent one and any_kind on/off equals a list comprehension over the child list.", NOTE, XH, "5/C15")
claim("C16", "Per shape: symbolic style selector over the 28 table styles, 'list', a custom 4-tuple and 6-tuple, symbolic join selector; every start node, add_self, title mode and repr kind rendered and compared with an independent renderer written from the user guide.", NOTE + " Symbolic z3 strings for the segments were tried and dropped (12 s per path).", XH, "5/C16")
claim("C17", "Per shape plain and typed, symbolic label/kind selectors (clones), start, unique_nodes, add_root: DOT and Mermaid output parsed by independent parsers, RDF triples read from the rdflib graph; node definitions and edge lists compared with the parent vector.", NOTE + " rdflib (pure Python) is imported from /venv's site-packages.", XH, "5/C17")
claim("C18", "For each of 9 snapshot operations x 3 tree classes x 3 tree states the lock/read trace is extracted from the current source with a monitor; z3 decides for all interleavings of W writers x C critical sections with R readers (quick 1x2x1, thorough 2x2x2) whether a reader READ can fall inside a foreign critical section (must be unsat); sat schedules are replayed with real threads; re-entrancy is run under a watchdog.", "Trusted: threading.RLock semantics as encoded, completeness of the monitored read set (_root, _node_by_id, _nodes_by_data_id), one trace per operation (no data-dependent locking).", Z3S, "5/C18")
claim("C19", "load_tree_from_fs over an in-memory FakePath directory (bound parameter: nesting up to 5 entries) with symbolic one-character names (all orderings), symbolic sizes, every listing permutation and sort flag; loaded tree compared with the description and again after save->load through the FileSystemTree mappers. The native pass repeats it on a real temporary directory.", NOTE + " S-fs: pathlib behaviour as documented (iterdir, is_dir, is_file, stat, name, component-wise ordering).", XH, "5/C19")
claim("C20", "build_random_tree with the module's random replaced by a tape of solver-chosen draws within the random module's contracts, for 6 structure definitions x {Tree, TypedTree}: class, allowed child types, counts (fixed / within range), merged attributes with macros expanded, randomized values in range, skipped attributes absent, kind == type.", NOTE + " Bounded tape: random() in {0.0, 0.5, 0.99}, uniform endpoints/midpoint, at most 10 draws.", XH, "5/C20")

NOT_YET = "check not built yet in this session (planned per DESIGN.md section 5)"


def main():
    props = [json.loads(l) for l in open(os.path.join(VERIF, "properties.jsonl"))]
    checks, na = [], []
    for p in props:
        pid = p["id"]
        c = CHECKS.get(pid)
        if not c:
            na.append({"property_id": pid, "reason": NA.get(pid, NOT_YET)})
            continue
        checks.append(
            {
                "property_id": pid,
                "quick_cmd": "./check %s --tier quick" % pid,
                "thorough_cmd": "./check %s --tier thorough" % pid,
                "evidence_file": "evidence/%s.json" % pid,
                "replay_cmd_template": "./check %s --replay {path}" % pid,
                "engine": "z3s" if pid == "C18" else "xh",
                "level_claimed": {"category": "model_checking", "text": c["text"], "design_ref": c["ref"]},
                "level_note": c["note"],
                "technique": c["technique"],
            }
        )
    man = {
        "version": 1,
        "setup_cmd": "python3-vt -c 'import crosshair, z3' && python3-vt -m compileall -q vlib props >/dev/null && echo setup-ok",
        "hooks": {
            "guard": "NUTREE_VERIF",
            "enable": "no source hooks: all stubs and monitors are applied from outside at harness import time (DESIGN.md section 2); the guard variable is unused by /repo",
            "baseline_off_cmd": "tools/runtests.sh",
            "source_commits": [],
            "add_only": True,
        },
        "engines": [
            {
                "name": "xh",
                "path": "vlib/engine.py",
                "serves_properties": [c["property_id"] for c in checks if c["property_id"] != "C18"],
                "kind_free_text": "CrossHair 0.0.110 (symbolic execution of Python over z3) driving harness functions that call the real nutree code from $VERIF_REPO; one CrossHair condition per shard in a 16-process pool; native replay of every counterexample",
            },
            {
                "name": "z3s",
                "path": "props/c18.py",
                "serves_properties": ["C18"],
                "kind_free_text": "z3 (python z3-solver) scheduling queries over traces extracted from the real code by the M-lock monitor; replay with real threads",
            },
        ],
        "checks": checks,
        "not_applicable": na,
        "notes": "Checks import nutree from $VERIF_REPO (default /repo) on every run; nothing is installed or cached. Exit 0 = held on everything explored, 1 = VIOLATION (replayed natively), 3 = harness error. fix: commits in /repo and the two known findings are listed in known_findings.txt. Seeded changes from independent sub-agents are kept under seeded/ (tools/selftest.sh re-runs them against the checks; DESIGN.md section 13 has the table). Thorough tiers were each run end-to-end once (DESIGN.md 12.2a).",
    }
    with open(os.path.join(VERIF, "MANIFEST.json"), "w") as fp:
        json.dump(man, fp, indent=1)
    print("MANIFEST.json: %d checks, %d not_applicable" % (len(checks), len(na)))


NA = {}

if __name__ == "__main__":
    main()
