#!/usr/bin/env python3
"""Regenerates /verif/MANIFEST.json from the table below (keeps it valid)."""

import json
import os
import sys

VERIF = os.path.dirname(os.path.dirname(os.path.abspath(__file__)))
sys.path.insert(0, VERIF)

# id -> (claimed?, level text, note, technique, design_ref, reason if not claimed)
CHECKS = {}


def claim(pid, text, note, technique, ref):
    CHECKS[pid] = dict(text=text, note=note, technique=technique, ref=ref)


XH = "symbolic execution of the real nutree code with CrossHair/z3 (bounded: shape and operation kind enumerated as bound parameters, all other inputs solver-quantified); counterexamples replayed natively"
NOTE = "Trusted: CrossHair 0.0.110 path exhaustion and Python modelling, z3, stubs S-dict/S-hash/S-set/S-fmt under their stated contracts (DESIGN 3.4), CPython 3.11 for symbolic runs vs 3.12 for replays. Bounds and exclusions are in the evidence file."

claim(
    "C10",
    "Bounded model checking: for every ordered forest up to the node bound (quick 4, thorough 5) the harness builds the tree through the public API with unbounded symbolic integer labels (equal-comparing siblings included) and compares every relationship query for every node, ordered node pair, level and flag with answers recomputed from the parent vector; CrossHair must exhaust all paths (CONFIRMED) for each shape.",
    NOTE,
    XH,
    "5/C10",
)

NOT_YET = "check not built yet in this session (planned per DESIGN.md section 5)"


def main():
    props = [json.loads(l) for l in open(os.path.join(VERIF, "properties.jsonl"))]
    checks, na = [], []
    for p in props:
        pid = p["id"]
        c = CHECKS.get(pid)
        if not c:
            na.append({"property_id": pid, "reason": NA.get(pid, NOT_YET)})
            continue
        checks.append(
            {
                "property_id": pid,
                "quick_cmd": "./check %s --tier quick" % pid,
                "thorough_cmd": "./check %s --tier thorough" % pid,
                "evidence_file": "evidence/%s.json" % pid,
                "replay_cmd_template": "./check %s --replay {path}" % pid,
                "engine": "xh",
                "level_claimed": {"category": "model_checking", "text": c["text"], "design_ref": c["ref"]},
                "level_note": c["note"],
                "technique": c["technique"],
            }
        )
    man = {
        "version": 1,
        "setup_cmd": "python3-vt -c 'import crosshair, z3' && python3-vt -m compileall -q vlib props >/dev/null && echo setup-ok",
        "hooks": {
            "guard": "NUTREE_VERIF",
            "enable": "no source hooks: all stubs and monitors are applied from outside at harness import time (DESIGN.md section 2); the guard variable is unused by /repo",
            "baseline_off_cmd": "tools/runtests.sh",
            "source_commits": [],
            "add_only": True,
        },
        "engines": [
            {
                "name": "xh",
                "path": "vlib/engine.py",
                "serves_properties": [c["property_id"] for c in checks],
                "kind_free_text": "CrossHair 0.0.110 (symbolic execution of Python over z3) driving harness functions that call the real nutree code from $VERIF_REPO; one CrossHair condition per shard in a 16-process pool; native replay of every counterexample",
            }
        ],
        "checks": checks,
        "not_applicable": na,
        "notes": "Checks import nutree from $VERIF_REPO (default /repo) on every run; nothing is installed or cached. Exit 0 = held on everything explored, 1 = VIOLATION (replayed natively), 3 = harness error. fix: commits in /repo are listed in known_findings.txt.",
    }
    with open(os.path.join(VERIF, "MANIFEST.json"), "w") as fp:
        json.dump(man, fp, indent=1)
    print("MANIFEST.json: %d checks, %d not_applicable" % (len(checks), len(na)))


NA = {}

if __name__ == "__main__":
    main()
