#!/bin/sh
# Runs the repository's pinned test suite with the (unused) hook guard OFF and
# prints pass/fail counts.
unset NUTREE_VERIF
out=$(mktemp /var/tmp/nutree-junit.XXXXXX)
cd "${VERIF_REPO:-/repo}" && /venv/bin/python -m pytest -ra -q -p no:cacheprovider --timeout=900 --continue-on-collection-errors --junitxml="$out" >/dev/null 2>&1
python3 - "$out" <<'PY'
import sys, xml.etree.ElementTree as E
r = E.parse(sys.argv[1]).getroot()
ts = r if r.tag == "testsuite" else r[0]
a = ts.attrib
t, f, e, s = (int(a[k]) for k in ("tests", "failures", "errors", "skipped"))
print("passed=%d failed=%d errors=%d skipped=%d" % (t - f - e - s, f, e, s))
sys.exit(0 if f == 0 and e == 0 else 1)
PY
rc=$?
rm -f "$out"
exit $rc
