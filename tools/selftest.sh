#!/bin/sh
# tools/selftest.sh [seed-name ...]   (default: every directory under /verif/seeded)
# Runs every kept seeded change through tools/seedtest.sh with the check of its
# property (plus the checks listed in meta.json "also_checks") and prints one
# summary line per seed.  Not a MANIFEST check; scratch worktrees live under
# /var/tmp and are removed by seedtest.sh.
cd /verif
names="$@"
[ -n "$names" ] || names=$(ls seeded)
for s in $names; do
  d=/verif/seeded/$s
  prop=$(python3 -c "import json;print(json.load(open('$d/meta.json'))['property'])")
  also=$(python3 -c "import json;print(' '.join(json.load(open('$d/meta.json')).get('also_checks', [])))")
  echo "##### $(echo $s | sed 's/-/\//')"
  tools/seedtest.sh $d $prop $also 2>&1 | grep -v "^WARNING"
done
