#!/usr/bin/env python3
"""Copies confirmed seeded changes from a scratch directory into /verif/seeded/.

usage: keep_seeds.py <scratch-root> <results.txt> [<results2.txt> ...]
The results files are the outputs of tools/seedtest.sh runs (sections start
with '##### <Cxx>/<n>').  Later files override earlier ones per seed/check.
"""
import json
import os
import re
import shutil
import sys

VERIF = os.path.dirname(os.path.dirname(os.path.abspath(__file__)))


def parse(path):
    out = {}
    cur = None
    for line in open(path, errors="replace"):
        m = re.match(r"##### (C\d+)/(\d+)", line)
        if m:
            cur = (m.group(1), m.group(2))
            out[cur] = {"checks": {}, "lines": [], "applies": True}
            continue
        if cur is None:
            continue
        r = out[cur]
        m = re.match(r"demo\(clean\) rc=(\d+)", line)
        if m:
            r["demo_clean"] = int(m.group(1))
        m = re.match(r"demo\(patched\) rc=(\d+)", line)
        if m:
            r["demo_patched"] = int(m.group(1))
        m = re.match(r"passed=(\d+) failed=(\d+) errors=(\d+)", line)
        if m:
            r["suite"] = "passed=%s failed=%s errors=%s" % m.groups()
        if "PATCH DOES NOT APPLY" in line:
            r["applies"] = False
        m = re.match(r"check (C\d+) rc=(\d+)", line)
        if m:
            r["checks"][m.group(1)] = {"rc": int(m.group(2)), "lines": []}
            r["last"] = m.group(1)
        elif r.get("last") and re.search(r"VIOLATION|HARNESS|tier=", line):
            c = r["checks"][r["last"]]
            if len(c["lines"]) < 3:
                c["lines"].append(re.sub(r"replay=\S+ ", "", line.strip())[:200])
    return out


def main():
    root = sys.argv[1]
    res = {}
    for f in sys.argv[2:]:
        for k, v in parse(f).items():
            if k in res:
                res[k]["checks"].update(v["checks"])
                for kk in ("demo_clean", "demo_patched", "suite", "applies"):
                    if kk in v:
                        res[k][kk] = v[kk]
            else:
                res[k] = v
    os.makedirs(os.path.join(VERIF, "seeded"), exist_ok=True)
    rows = []
    for (pid, n), r in sorted(res.items()):
        src = os.path.join(root, pid, n)
        if not os.path.exists(os.path.join(src, "patch.diff")):
            continue
        ok = r.get("applies", True) and r.get("demo_clean") == 0 and r.get("demo_patched", 0) != 0 and r.get("suite", "").startswith("passed=72 failed=0 errors=0")
        if not ok:
            rows.append((pid, n, "NOT KEPT", r.get("applies", True), r.get("suite"), r.get("demo_clean"), r.get("demo_patched")))
            continue
        dst = os.path.join(VERIF, "seeded", "%s-%s" % (pid, n))
        os.makedirs(dst, exist_ok=True)
        shutil.copy(os.path.join(src, "patch.diff"), dst)
        shutil.copy(os.path.join(src, "demo.py"), dst)
        meta = json.load(open(os.path.join(src, "meta.json")))
        caught = sorted(c for c, v in r["checks"].items() if v["rc"] == 1)
        meta_out = {
            "property": pid,
            "summary": meta.get("summary"),
            "needs": meta.get("needs"),
            "author_ran": meta.get("ran"),
            "confirmed_by_me": {
                "how": "tools/seedtest.sh: scratch worktree of /repo HEAD outside /repo and /verif; demo.py on the clean tree; git apply patch.diff; tools/runtests.sh; demo.py on the patched tree; ./check with VERIF_REPO=<worktree>",
                "demo_clean_rc": r.get("demo_clean"),
                "suite_patched": r.get("suite"),
                "demo_patched_rc": r.get("demo_patched"),
            },
            "checks_run": {c: {"exit": v["rc"], "output": v["lines"]} for c, v in r["checks"].items()},
            "caught_by": caught,
        }
        old = os.path.join(dst, "meta.json")
        if os.path.exists(old):
            prev = json.load(open(old))
            for k in ("history", "note", "also_checks"):
                if k in prev:
                    meta_out[k] = prev[k]
        json.dump(meta_out, open(old, "w"), indent=1)
        rows.append((pid, n, "kept", ",".join(caught) or "MISSED"))
    for r in rows:
        print(*r)


if __name__ == "__main__":
    main()
