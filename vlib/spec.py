"""Independent executable specification of nutree's documented mutation
semantics on plain Python records (DESIGN.md 3.5).

Written from the method docstrings and docs/sphinx/ug_*.rst, not from the
implementation.  It runs on the same (possibly symbolic) values as the real
code; its comparisons fork paths like the implementation's do.

Every operation returns one of
    ("ok", ret)          the operation is documented-valid; the model has been
                         updated in place; `ret` is the model node returned (or None)
    ("refuse", why)      the documentation requires the call to be refused
                         (why in {"unique", "ambiguous", "position", "target", "unsupported"})
    ("undoc", why)       the documentation does not say what happens
"""

from __future__ import annotations


class M:
    """Model node."""

    __slots__ = ("tok", "data", "did", "kind", "meta", "ch", "parent")

    def __init__(self, tok, data, did, kind=None, meta=None, parent=None):
        self.tok = tok
        self.data = data
        self.did = did
        self.kind = kind
        self.meta = meta  # dict or None
        self.ch = []
        self.parent = parent


class Model:
    def __init__(self, calc=None, typed=False):
        self.root = M(None, None, None)
        self.calc = calc or (lambda d: d)  # data -> default data_id (ints: hash identity)
        self.typed = typed

    # -- construction -----------------------------------------------------
    @classmethod
    def from_shape(cls, shape, labels, ids=None, kinds=None, calc=None):
        m = cls(calc=calc, typed=kinds is not None)
        nodes = []
        for i, p in enumerate(shape):
            par = m.root if p < 0 else nodes[p]
            did = ids[i] if ids is not None and ids[i] is not None else m.calc(labels[i])
            n = M(i, labels[i], did, None if kinds is None else kinds[i], None, par)
            par.ch.append(n)
            nodes.append(n)
        m.nodes = nodes
        return m

    # -- helpers ------------------------------------------------------------
    def all_nodes(self):
        out = []

        def rec(n):
            for c in n.ch:
                out.append(c)
                rec(c)

        rec(self.root)
        return out

    def observe(self):
        def obs(n):
            meta = None if not n.meta else sorted(n.meta.items())
            return (n.tok, n.data, n.did, n.kind, meta, [obs(c) for c in n.ch])

        return [obs(c) for c in self.root.ch]

    def is_in_subtree(self, n, top):
        """n is top or a descendant of top."""
        while n is not None:
            if n is top:
                return True
            n = n.parent
        return False

    @staticmethod
    def has_did(children, did, skip=None):
        for c in children:
            if c is not skip and c.did == did:
                return True
        return False

    @staticmethod
    def _unique(children):
        for i in range(len(children)):
            for j in range(i + 1, len(children)):
                if children[i].did == children[j].did:
                    return False
        return True

    def _uq(self, parent, before, moving=None):
        """'unique' if the uniqueness rule is the only reason to refuse, else
        'unique+position' (either error is then acceptable)."""
        st, _ = self.position(parent, before, moving)
        return "unique" if st == "ok" else "unique+position"

    def position(self, parent, before, moving=None):
        """Resolve the documented `before` argument to an insert index into
        parent's child list (without `moving`).  Returns (status, index)."""
        sibs = [c for c in parent.ch if c is not moving]
        if before is None or before is False:
            return "ok", len(sibs)
        if before is True:
            return "ok", 0
        if isinstance(before, M):
            if before is moving:
                return "undoc", None
            for i, c in enumerate(sibs):
                if c is before:
                    return "ok", i
            return "refuse", None  # not a child of the target
        # int index: "before the existing child with this index"
        if not sibs:
            # "If this node has no children yet, the new node is created as first child."
            if before == 0:
                return "ok", 0
            return "undoc", None
        if 0 <= before < len(sibs):
            return "ok", before
        return "undoc", None

    # -- operations -----------------------------------------------------------
    def add(self, parent, data, did=None, kind=None, before=None):
        eff = did if did is not None else self.calc(data)
        if self.has_did(parent.ch, eff):
            return ("refuse", self._uq(parent, before))
        st, idx = self.position(parent, before)
        if st == "refuse":
            return ("refuse", "position")
        if st == "undoc":
            return ("undoc", "position")
        n = M(-1, data, eff, kind, None, parent)
        parent.ch.insert(idx, n)
        return ("ok", n)

    def _copy_rec(self, src, parent, top_kind=None, kind_default=None):
        n = M(-1, src.data, src.did, src.kind if top_kind is None else top_kind, None, parent)
        for c in list(src.ch):
            n.ch.append(self._copy_rec(c, n))
        return n

    def copy_node(self, parent, src, before=None, deep=False, kind=None):
        """parent.add(src_node): a new node referencing the same data under the
        same data_id; descendants too if deep."""
        if self.has_did(parent.ch, src.did):
            return ("refuse", self._uq(parent, before))
        st, idx = self.position(parent, before)
        if st == "refuse":
            return ("refuse", "position")
        if st == "undoc":
            return ("undoc", "position")
        if deep:
            n = self._copy_rec(src, parent, top_kind=kind)
        else:
            n = M(-1, src.data, src.did, kind if kind is not None else src.kind, None, parent)
        parent.ch.insert(idx, n)
        return ("ok", n)

    def copy_children(self, parent, src, deep=False):
        """src.copy_to(parent, add_self=False): copies of src's children appended."""
        if not src.ch:
            return ("refuse", "target")
        for c in src.ch:
            if self.has_did(parent.ch, c.did):
                return ("refuse", "unique")
        first = None
        for c in list(src.ch):
            n = self._copy_rec(c, parent) if deep else M(-1, c.data, c.did, c.kind, None, parent)
            parent.ch.append(n)
            first = first or n
        return ("ok", first)

    def add_forest(self, parent, tops, before=None, deep=True):
        """parent.add(other_tree): copies of all top nodes, in order, at `before`."""
        if not tops:
            return ("undoc", "empty-tree")
        for t in tops:
            if self.has_did(parent.ch, t.did):
                return ("refuse", self._uq(parent, before))
        st, idx = self.position(parent, before)
        if st == "refuse":
            return ("refuse", "position")
        if st == "undoc":
            return ("undoc", "position")
        new = []
        for t in tops:
            new.append(self._copy_rec(t, parent) if deep else M(-1, t.data, t.did, t.kind, None, parent))
        parent.ch[idx:idx] = new
        return ("ok", new[-1])

    def move(self, node, target, before=None):
        if self.typed:
            return ("refuse", "unsupported")
        if self.is_in_subtree(target, node):
            return ("refuse", "target")
        if target is not node.parent and self.has_did(target.ch, node.did):
            return ("refuse", self._uq(target, before, node))
        st, idx = self.position(target, before, moving=node)
        if st == "refuse":
            return ("refuse", "position")
        if st == "undoc":
            return ("undoc", "position")
        node.parent.ch.remove(node)  # M has no __eq__: identity
        node.parent = target
        target.ch.insert(idx, node)
        return ("ok", None)

    def remove(self, node, keep_children=False, with_clones=False):
        if with_clones:
            targets = [n for n in self.all_nodes() if n.did == node.did]
        else:
            targets = [node]

        def is_target(n):
            for t in targets:
                if t is n:
                    return True
            return False

        def rebuild(parent, children):
            out = []
            for c in children:
                if is_target(c):
                    if keep_children:
                        out.extend(rebuild(parent, c.ch))
                else:
                    c2 = rebuild(c, c.ch)
                    out.append((c, c2))
            return out

        plan = rebuild(self.root, self.root.ch)

        def check(plan):
            kids = [c for c, _ in plan]
            if not self._unique(kids):
                return False
            for _, sub in plan:
                if not check(sub):
                    return False
            return True

        if not check(plan):
            return ("refuse", "unique")

        def commit(parent, plan):
            parent.ch = [c for c, _ in plan]
            for c, sub in plan:
                c.parent = parent
                commit(c, sub)

        commit(self.root, plan)
        return ("ok", None)

    def remove_children(self, node):
        node.ch = []
        return ("ok", None)

    def set_data(self, node, data, did=None, with_clones=None):
        group = [n for n in self.all_nodes() if n.did == node.did]
        has_clones = len(group) > 1
        if has_clones and with_clones is None:
            return ("refuse", "ambiguous")
        if did is not None:
            new_did = did
        elif data is not None:
            new_did = self.calc(data)
        else:
            new_did = node.did
        targets = group if (has_clones and with_clones) else [node]
        if new_did != node.did:
            for t in targets:
                if self.has_did(t.parent.ch, new_did, skip=t):
                    return ("refuse", "unique")
        for t in targets:
            t.did = new_did
            if data is not None:
                t.data = data
        return ("ok", None)

    def sort(self, parent, reverse=False, deep=False):
        """Returns the set of parents whose child lists are sorted (by data)."""
        levels = []

        def rec(p):
            levels.append(p)
            if deep:
                for c in p.ch:
                    rec(c)

        rec(parent)
        return levels

    def set_meta(self, node, key, value):
        if value is None:
            if node.meta:
                node.meta.pop(key, None)
                if not node.meta:
                    node.meta = None
        else:
            if node.meta is None:
                node.meta = {}
            node.meta[key] = value
        return ("ok", None)

    def update_meta(self, node, values, replace=False):
        if replace or node.meta is None:
            node.meta = dict(values)
        else:
            node.meta.update(values)
        return ("ok", None)

    def clear_meta(self, node, key=None):
        if key is None:
            node.meta = None
        elif node.meta:
            node.meta.pop(key, None)
            if not node.meta:
                node.meta = None
        return ("ok", None)

    def filter(self, parent, verdict):
        """verdict(node) in {True, False}: keep accepted nodes and their ancestors."""

        def rec(p):
            keep_any = False
            new = []
            for c in p.ch:
                v = verdict(c)
                if v == "skip":  # the node and everything below it goes
                    continue
                sub = rec(c)
                if v or sub:
                    new.append(c)
                    keep_any = True
            p.ch = new
            return keep_any

        rec(parent)
        return ("ok", None)
