"""Shapes, pre-state builder, observation and invariant predicates.

Everything here reads trees through the public API only (plus `_children`
identity where the public accessor returns the same list) and works both on
symbolic (CrossHair) and on concrete values.
"""

from __future__ import annotations

from functools import lru_cache


# ---------------------------------------------------------------------------
# shapes: ordered forests as parent vectors in pre-order (-1 = top level)
# ---------------------------------------------------------------------------
@lru_cache(maxsize=None)
def shapes(n):
    """All ordered forests with n nodes (Catalan(n) many), as tuples."""
    if n == 0:
        return ((),)
    out = []
    for prev in shapes(n - 1):
        # node n-1 may hang below any node on the right-most path, or be top
        if n == 1:
            out.append((-1,))
            continue
        last = n - 2
        cands = [-1]
        path = []
        p = last
        while p != -1:
            path.append(p)
            p = prev[p]
        cands.extend(reversed(path))
        for c in cands:
            out.append(prev + (c,))
    return tuple(sorted(set(out)))


def shapes_upto(n, lo=0):
    out = []
    for k in range(lo, n + 1):
        out.extend(shapes(k))
    return out


def children_of(shape, p):
    return [i for i, q in enumerate(shape) if q == p]


def max_siblings(shape):
    """Largest number of children below one parent (incl. the top level)."""
    if not shape:
        return 0
    return max(len(children_of(shape, p)) for p in range(-1, len(shape)))


def depth_of(shape, i):
    d = 1
    while shape[i] != -1:
        i = shape[i]
        d += 1
    return d


def ancestors_of(shape, i):
    """Ancestors of i, nearest first (excluding i)."""
    out = []
    while shape[i] != -1:
        i = shape[i]
        out.append(i)
    return out


def descendants_of(shape, i):
    """Descendants of i in pre-order (excluding i)."""
    out = []
    for j in range(i + 1, len(shape)):
        if i in ancestors_of(shape, j):
            out.append(j)
    return out


def shape_str(shape):
    return "".join("r" if p < 0 else str(p) for p in shape) or "-"


# ---------------------------------------------------------------------------
# builder
# ---------------------------------------------------------------------------
def make_tree(cls="Tree", calc=None, name="T"):
    from nutree import Tree
    from nutree.typed_tree import TypedTree

    klass = {"Tree": Tree, "TypedTree": TypedTree}.get(cls, cls)
    if calc is not None:
        return klass(name, calc_data_id=calc)
    return klass(name)


def build(
    shape,
    labels,
    ids=None,
    kinds=None,
    cls="Tree",
    calc=None,
    cleared=False,
    node_ids=None,
    name="T",
    order=None,
):
    """Build a tree of `shape` through public add calls; returns (tree, nodes).

    labels[i] is the data of node i (pre-order numbering), ids[i] an optional
    explicit data_id, kinds[i] the kind (TypedTree).  `cleared` runs the
    prologue add+clear so that the root's child list is `None`, not `[]`.
    `order` is an optional creation order (a permutation of range(n) in which
    parents precede children); nodes are then inserted at their final position
    with `before=`.
    """
    tree = make_tree(cls, calc, name)
    typed = kinds is not None
    if cleared:
        if typed:
            tree.add("__tmp__", kind="k")
        else:
            tree.add("__tmp__")
        tree.clear()
    n = len(shape)
    nodes = [None] * n
    seq = range(n) if order is None else order
    for i in seq:
        p = shape[i]
        parent = tree if p < 0 else nodes[p]
        kw = {}
        if ids is not None and ids[i] is not None:
            kw["data_id"] = ids[i]
        if node_ids is not None:
            kw["node_id"] = node_ids[i]
        if typed:
            kw["kind"] = kinds[i]
        if order is not None:
            # insert before the first already existing later sibling
            sibs = [j for j in children_of(shape, p) if j > i and nodes[j] is not None]
            if sibs:
                kw["before"] = nodes[sibs[0]]
        nodes[i] = parent.add(labels[i], **kw)
    return tree, nodes


# ---------------------------------------------------------------------------
# observation
# ---------------------------------------------------------------------------
def token_of(reg, node):
    for i, r in enumerate(reg):
        if r is node:
            return i
    return -1


def kind_of(node):
    return getattr(node, "_kind", None) if hasattr(type(node), "kind") else None


def observe(tree, reg):
    """Nested observable state: [(token, data, data_id, kind, meta, children)]."""

    def obs(n):
        m = n.meta
        meta = None if not m else sorted(m.items())
        return (
            token_of(reg, n),
            n.data,
            n.data_id,
            kind_of(n),
            meta,
            [obs(c) for c in n.children],
        )

    return [obs(c) for c in tree.children]


def obs_equal(a, b, ident=True):
    """Structural comparison of two observations; returns '' or a clause."""
    if len(a) != len(b):
        return "child-count"
    for x, y in zip(a, b):
        if ident and x[0] != y[0]:
            return "identity"
        if not (x[1] is y[1] or x[1] == y[1]):
            return "data"
        if x[2] != y[2]:
            return "data_id"
        if x[3] != y[3]:
            return "kind"
        if x[4] != y[4]:
            return "meta"
        r = obs_equal(x[5], y[5], ident)
        if r:
            return r
    return ""


def walk(tree, limit=64):
    """Pre-order walk over public `children`; returns list of (node, parent)
    (parent None for top level) or None if more than `limit` nodes are met
    (cycle)."""
    out = []
    stack = [(c, None) for c in reversed(tree.children)]
    while stack:
        n, p = stack.pop()
        out.append((n, p))
        if len(out) > limit:
            return None
        for c in reversed(n.children):
            stack.append((c, n))
    return out


# ---------------------------------------------------------------------------
# invariants (C01, C02, C03)
# ---------------------------------------------------------------------------
def wf(tree, limit=64):
    """C01 well-formedness; returns '' or the failing clause."""
    w = walk(tree, limit)
    if w is None:
        return "wf:cycle"
    seen = []
    for n, p in w:
        for s in seen:
            if s is n:
                return "wf:node-reached-twice"
        seen.append(n)
    for n, p in w:
        if n.tree is not tree:
            return "wf:owner"
        if n.parent is not p:
            return "wf:parent"
        sibs = tree.children if p is None else p.children
        cnt = 0
        for s in sibs:
            if s is n:
                cnt += 1
        if cnt != 1:
            return "wf:not-once-in-parent"
        # never own ancestor
        a = n.parent
        steps = 0
        while a is not None:
            if a is n:
                return "wf:own-ancestor"
            a = a.parent
            steps += 1
            if steps > limit:
                return "wf:ancestor-loop"
    if tree.count != len(w) or len(tree) != len(w):
        return "wf:count"
    ids = [n.node_id for n, _ in w]
    for i in range(len(ids)):
        for j in range(i + 1, len(ids)):
            if ids[i] == ids[j]:
                return "wf:node_id-dup"
    for n, _ in w:
        if tree.find_first(node_id=n.node_id) is not n:
            return "wf:find-by-node_id"
    it = list(tree)
    if len(it) != len(w):
        return "wf:iter-len"
    for a, (b, _) in zip(it, w):
        if a is not b:
            return "wf:iter-order"
    return ""


def removed_gone(tree, removed, old_ids, limit=64):
    """Removed nodes are neither reachable nor found under their old node_id."""
    w = walk(tree, limit)
    if w is None:
        return "wf:cycle"
    for r, oid in zip(removed, old_ids):
        for n, _ in w:
            if n is r:
                return "wf:removed-still-reachable"
        if oid is not None and tree.find_first(node_id=oid) is r:
            return "wf:removed-still-registered"
    return ""


def _same_members(lst, expect):
    """lst has no identity duplicates and the same members as expect."""
    if len(lst) != len(expect):
        return False
    for i in range(len(lst)):
        for j in range(i + 1, len(lst)):
            if lst[i] is lst[j]:
                return False
    for e in expect:
        ok = False
        for x in lst:
            if x is e:
                ok = True
                break
        if not ok:
            return False
    return True


def index_exact(tree, probe_ids=(), limit=64):
    """C02: lookups by data_id / clone queries equal the walk."""
    w = walk(tree, limit)
    if w is None:
        return "idx:cycle"
    nodes = [n for n, _ in w]
    ids = []
    for n in nodes:
        d = n.data_id
        known = False
        for e in ids:
            if e == d:
                known = True
                break
        if not known:
            ids.append(d)
    if tree.count_unique != len(ids):
        return "idx:count_unique"
    all_ids = list(ids)
    for p in probe_ids:
        all_ids.append(p)
    for d in all_ids:
        expect = [n for n in nodes if n.data_id == d]
        got = tree.find_all(data_id=d)
        if not _same_members(got, expect):
            return "idx:find_all"
        f = tree.find_first(data_id=d)
        if expect:
            hit = False
            for e in expect:
                if f is e:
                    hit = True
            if not hit:
                return "idx:find_first"
        elif f is not None:
            return "idx:find_first-stale"
    for n in nodes:
        expect = [m for m in nodes if m.data_id == n.data_id]
        if not _same_members(n.get_clones(add_self=True), expect):
            return "idx:get_clones+self"
        if not _same_members(n.get_clones(), [m for m in expect if m is not n]):
            return "idx:get_clones"
        if n.is_clone() != (len(expect) > 1):
            return "idx:is_clone"
    return ""


def siblings_unique(tree, limit=64):
    """C03: no parent has two children with the same data_id."""
    w = walk(tree, limit)
    if w is None:
        return "uniq:cycle"
    parents = [None] + [n for n, _ in w]
    for p in parents:
        ch = tree.children if p is None else p.children
        for i in range(len(ch)):
            for j in range(i + 1, len(ch)):
                if ch[i].data_id == ch[j].data_id:
                    return "uniq:duplicate-sibling-id"
    return ""


def inv_all(tree, probe_ids=()):
    return wf(tree) or index_exact(tree, probe_ids) or siblings_unique(tree)
