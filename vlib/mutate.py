"""One mutation step on the real code next to the specification model.

Shared by C01, C02, C03, C04, C13 (DESIGN.md section 4): the pre-state is an
arbitrary tree of the shard's shape (labels / ids / kinds symbolic), one public
mutating operation is run with symbolic arguments, and the caller's oracle
inspects the record returned by `step`.
"""

from __future__ import annotations

from vlib import build as B
from vlib.spec import Model

KINDS = ["k0", "k1"]
META_KEYS = ["mk0", "mk1"]

# operation kinds and the minimum number of nodes they need
OPS = {
    "add": 0,
    "append_child": 0,
    "prepend_child": 0,
    "prepend_sibling": 1,
    "append_sibling": 1,
    "copy_node": 1,
    "copy_to": 1,
    "add_tree": 0,
    "tree_copy_to": 0,
    "move": 1,
    "remove": 1,
    "remove_children": 1,
    "clear": 0,
    "sort": 0,
    "set_data": 1,
    "meta": 1,
    "filter": 1,
}
TYPED_OPS = ["add", "append_child", "prepend_child", "prepend_sibling", "append_sibling", "copy_node", "move", "remove", "set_data"]


def nb(n):
    """number of `before` encodings for a pre-state with n nodes"""
    return 2 * n + 6


def decode_before(b, n):
    """-> ('none'|'false'|'true'|'int'|'node', value)"""
    b = int(b)
    if b == 0:
        return ("none", None)
    if b == 1:
        return ("false", False)
    if b == 2:
        return ("true", True)
    if b < 3 + n + 3:
        return ("int", b - 3 - 1)
    return ("node", b - (n + 6))


def params(desc):
    shape = desc["shape"]
    n = len(shape)
    op = desc["op"]
    regime = desc.get("regime", "R1")
    typed = desc.get("typed", False)
    ps = [("l%d" % i, "int", 1, None) for i in range(n)]
    if regime == "R3":
        ps += [("d%d" % i, "int", 1, None) for i in range(n)]
    if typed:
        ps += [("k%d" % i, "sel", 0, 1) for i in range(n)]
    if n == 0:
        ps.append(("cleared", "bool", None, None))
    P = ("p", "sel", -1, n - 1)
    S = ("s", "sel", 0, n - 1)
    Bf = ("b", "sel", 0, nb(n) - 1)
    L = ("L", "int", 1, None)
    D = ("D", "int", 0, None)  # 0 = no explicit id
    K = ("K", "sel", 0, 1)
    if op == "add":
        ps += [P, Bf, L, ("nid", "bool", None, None)]
        if regime == "R3":
            ps.append(D)
        if typed:
            ps.append(K)
    elif op in ("append_child", "prepend_child"):
        ps += [P, L]
        if typed:
            ps.append(K)
    elif op in ("prepend_sibling", "append_sibling"):
        ps += [S, L]
    elif op == "copy_node":
        ps += [S, P, Bf, ("deep", "bool", None, None)]
        if typed:
            ps.append(K)
    elif op == "copy_to":
        ps += [S, P, Bf, ("deep", "bool", None, None), ("add_self", "bool", None, None)]
    elif op in ("add_tree", "tree_copy_to"):
        m = len(desc["other"])
        ps += [("m%d" % i, "int", 1, None) for i in range(m)]
        if regime == "R3":
            ps += [("e%d" % i, "int", 1, None) for i in range(m)]
        ps += [P, ("deep", "bool", None, None)]
        if op == "add_tree":
            ps.append(Bf)
    elif op == "move":
        ps += [S, P, Bf]
    elif op == "remove":
        ps += [S, ("keep", "bool", None, None), ("wc", "bool", None, None)]
    elif op == "remove_children":
        ps += [S]
    elif op == "clear":
        pass
    elif op == "sort":
        ps += [P, ("reverse", "bool", None, None), ("deep", "bool", None, None)]
    elif op == "set_data":
        ps += [S, L, ("mode", "sel", 0, 2), ("wc", "sel", 0, 2)]
        if regime == "R3":
            ps.append(D)
    elif op == "meta":
        ps += [S, ("which", "sel", 0, 4), ("mk", "sel", 0, 1), ("V", "int", 0, None), ("pre", "sel", 0, 2)]
    elif op == "filter":
        ps += [("v%d" % i, "sel", 0, 2) for i in range(n)]  # 0 reject, 1 accept, 2 SkipBranch
    else:
        raise ValueError(op)
    return ps + first_params(desc)


class Rec:
    pass


FIRST_OPS = ["move", "remove", "remove_keep", "set_data_wc"]


def first_params(desc):
    n = len(desc["shape"])
    f = desc.get("first")
    if not f:
        return []
    ps = [("s1", "sel", 0, n - 1)]
    if f == "move":
        ps.append(("p1", "sel", -1, n - 1))
    if f == "set_data_wc":
        ps.append(("L1", "int", 1, None))
    return ps


def first_op(f, tree, nodes, model, x):
    """State-shaping first step of a two-step history, applied to the real
    tree and to the model.  Returns the set of node indices that are gone
    afterwards, or None if the step is refused / not applicable."""
    mn = model.nodes
    s1 = x["s1"]
    if f == "move":
        p1 = x["p1"]
        st = model.move(mn[s1], model.root if p1 < 0 else mn[p1], None)
    elif f == "remove":
        st = model.remove(mn[s1], False, False)
    elif f == "remove_keep":
        st = model.remove(mn[s1], True, False)
    else:
        st = model.set_data(mn[s1], x["L1"], None, True)
    if st[0] != "ok":
        return None
    try:
        if f == "move":
            nodes[s1].move_to(tree if x["p1"] < 0 else nodes[x["p1"]])
        elif f == "remove":
            nodes[s1].remove()
        elif f == "remove_keep":
            nodes[s1].remove(keep_children=True)
        else:
            nodes[s1].set_data(x["L1"], with_clones=True)
    except Exception:  # noqa: BLE001 - a failing first step is the single-step shards' subject
        return None
    alive = [m.tok for m in model.all_nodes()]
    return set(i for i in range(len(nodes)) if i not in alive)


def step(ctx, desc, x, pre_hook=None):
    """Build the pre-state, run the operation on the real code and on the
    model.  Returns a Rec."""
    from nutree import Tree

    shape = tuple(desc["shape"])
    n = len(shape)
    op = desc["op"]
    regime = desc.get("regime", "R1")
    typed = desc.get("typed", False)
    labels = [x["l%d" % i] for i in range(n)]
    ids = [x["d%d" % i] for i in range(n)] if regime == "R3" else None
    kinds = [KINDS[int(x["k%d" % i])] for i in range(n)] if typed else None
    cleared = bool(x.get("cleared", False))

    r = Rec()
    r.pre_clause = ""
    try:
        tree, nodes = B.build(shape, labels, ids=ids, kinds=kinds, cls="TypedTree" if typed else "Tree", cleared=cleared, order=desc.get("order"))
    except Exception as e:  # noqa: BLE001
        # The pre-state itself is not constructible (e.g. two siblings with
        # the same data_id): outside the claim, not a finding.
        r.skip = True
        return r
    r.skip = False
    model = Model.from_shape(shape, labels, ids=ids, kinds=kinds)
    mn = model.nodes
    reg = list(nodes)
    r.tree, r.nodes, r.reg, r.model = tree, nodes, reg, model
    r.old_node_ids = [nd.node_id for nd in nodes]
    r.pre_inv = B.inv_all(tree) if ctx.native else ""  # builder sanity (native validation pass only)
    dead = ()
    if pre_hook is not None:
        dead = pre_hook(tree, nodes, model) or ()
    if desc.get("first"):
        dead = first_op(desc["first"], tree, nodes, model, x)
        if dead is None:
            r.skip = True  # first step refused / not applicable: outside this shard's claim
            return r
    if dead:
        for key in ("s", "p"):
            if key in x and x[key] >= 0 and x[key] in dead:
                r.skip = True
                return r
        if "b" in x:
            bk, bv = decode_before(x["b"], n)
            if bk == "node" and bv in dead:
                r.skip = True
                return r
    r.obs_before = B.observe(tree, reg)
    if B.obs_equal(r.obs_before, model.observe()):
        r.pre_clause = "builder:pre-state-differs-from-model"
        return r

    def RT(p):  # real target
        return tree if p < 0 else nodes[p]

    def MT(p):
        return model.root if p < 0 else mn[p]

    def before_pair(b):
        kind, v = decode_before(b, n)
        if kind == "node":
            return nodes[v], mn[v]
        return v, v

    exc = None
    ret = None
    status = None
    r.sorted_levels = None
    r.other = None
    kw = {}
    try:
        if op == "add":
            p = int(x["p"])
            rb, mb = before_pair(x["b"])
            L = x["L"]
            D = x.get("D", 0)
            did = None if (regime != "R3" or D == 0) else D
            kind = KINDS[int(x["K"])] if typed else None
            status = model.add(MT(p), L, did, kind, mb)
            kw = dict(before=rb)
            if did is not None:
                kw["data_id"] = did
            if typed:
                kw["kind"] = kind
            if x.get("nid"):
                kw["node_id"] = 5000  # an explicit node_id (a refused add must not leave it registered)
            ret = RT(p).add(L, **kw)
        elif op in ("append_child", "prepend_child"):
            p = int(x["p"])
            L = x["L"]
            kind = KINDS[int(x["K"])] if typed else None
            status = model.add(MT(p), L, None, kind, None if op == "append_child" else True)
            if typed:
                kw["kind"] = kind
            target = tree.system_root if p < 0 else nodes[p]
            ret = getattr(target, op)(L, **kw)
        elif op in ("prepend_sibling", "append_sibling"):
            s = int(x["s"])
            L = x["L"]
            ms = mn[s]
            sibs = ms.parent.ch
            if op == "prepend_sibling":
                mb = ms
            else:
                i = [k for k, c in enumerate(sibs) if c is ms][0]
                mb = sibs[i + 1] if i + 1 < len(sibs) else None
            # typed trees: "Add a new node of same kind"
            status = model.add(ms.parent, L, None, ms.kind if typed else None, mb)
            ret = getattr(nodes[s], op)(L)
        elif op == "copy_node":
            s, p = int(x["s"]), int(x["p"])
            rb, mb = before_pair(x["b"])
            deep = x["deep"]
            kind = KINDS[int(x["K"])] if typed else None
            if deep and model.is_in_subtree(MT(p), mn[s]):
                r.deep_into_self = True
            status = model.copy_node(MT(p), mn[s], mb, deep, kind)
            kw = dict(before=rb, deep=deep)
            if typed:
                kw["kind"] = kind
            ret = RT(p).add(nodes[s], **kw)
        elif op == "copy_to":
            s, p = int(x["s"]), int(x["p"])
            deep, add_self = x["deep"], x["add_self"]
            if add_self:
                rb, mb = before_pair(x["b"])
                status = model.copy_node(MT(p), mn[s], mb, deep)
            else:
                rb = mb = None
                status = model.copy_children(MT(p), mn[s], deep)
            if deep and model.is_in_subtree(MT(p), mn[s]):
                r.deep_into_self = True
            ret = nodes[s].copy_to(RT(p), add_self=add_self, before=rb, deep=deep)
        elif op in ("add_tree", "tree_copy_to"):
            oshape = tuple(desc["other"])
            olabels = [x["m%d" % i] for i in range(len(oshape))]
            oids = [x["e%d" % i] for i in range(len(oshape))] if regime == "R3" else None
            try:
                other, onodes = B.build(oshape, olabels, ids=oids, name="O")
            except Exception:  # noqa: BLE001 - source tree not constructible: outside the claim
                r.skip = True
                return r
            omodel = Model.from_shape(oshape, olabels, ids=oids)
            for m_ in omodel.nodes:
                m_.tok = 100 + m_.tok
            r.other = (other, list(onodes), B.observe(other, onodes))
            p = int(x["p"])
            deep = x["deep"]
            if op == "add_tree":
                rb, mb = before_pair(x["b"])
                status = model.add_forest(MT(p), omodel.root.ch, mb, deep)
                ret = RT(p).add(other, before=rb, deep=deep)
            else:
                status = model.add_forest(MT(p), omodel.root.ch, None, deep)
                if status[0] == "undoc":
                    status = ("refuse", "target")  # copy_to(add_self=False) of a childless node
                ret = other.copy_to(RT(p), deep=deep)
                status = (status[0], None) if status[0] == "ok" else status
        elif op == "move":
            s, p = int(x["s"]), int(x["p"])
            rb, mb = before_pair(x["b"])
            status = model.move(mn[s], MT(p), mb)
            ret = nodes[s].move_to(RT(p), before=rb)
        elif op == "remove":
            s = int(x["s"])
            status = model.remove(mn[s], x["keep"], x["wc"])
            ret = nodes[s].remove(keep_children=x["keep"], with_clones=x["wc"])
        elif op == "remove_children":
            s = int(x["s"])
            status = model.remove_children(mn[s])
            ret = nodes[s].remove_children()
        elif op == "clear":
            status = model.remove_children(model.root)
            ret = tree.clear()
        elif op == "sort":
            p = int(x["p"])
            rev, deep = x["reverse"], x["deep"]
            r.sorted_levels = model.sort(MT(p), rev, deep)
            r.sort_reverse = rev
            status = ("ok", None)
            key = lambda nd: nd.data  # noqa: E731
            if p < 0:
                ret = tree.sort(key=key, reverse=rev, deep=deep)
            else:
                ret = nodes[p].sort_children(key=key, reverse=rev, deep=deep)
        elif op == "set_data":
            s = int(x["s"])
            L = x["L"]
            mode = int(x["mode"])  # 0 data only, 1 id only, 2 both
            wc = [None, False, True][int(x["wc"])]
            D = x.get("D", 0)
            if regime == "R3":
                if D == 0:
                    mode = 0
            else:
                D = L + 1 if mode != 0 else 0  # an id that differs from hash(data)
            data = None if mode == 1 else L
            did = None if mode == 0 else D
            if regime == "R3" and mode == 0:
                # changing only the data of a node with an explicit id: the
                # documentation does not say whether the id is recomputed
                status = ("undoc", "explicit-id-recompute")
                model_status = model.set_data(mn[s], data, did, wc)
            else:
                status = model.set_data(mn[s], data, did, wc)
            kw = {}
            if did is not None:
                kw["data_id"] = did
            if wc is not None:
                kw["with_clones"] = wc
            ret = nodes[s].set_data(data, **kw)
        elif op == "meta":
            s = int(x["s"])
            which = int(x["which"])
            key = META_KEYS[int(x["mk"])]
            V = x["V"]
            val = None if V == 0 else V
            pre = int(x["pre"])  # pre-existing metadata: 0 none, 1 {mk0: 7}, 2 {mk0: 7, mk1: 8}
            if pre >= 1:
                nodes[s].set_meta("mk0", 7)
                model.set_meta(mn[s], "mk0", 7)
            if pre >= 2:
                nodes[s].set_meta("mk1", 8)
                model.set_meta(mn[s], "mk1", 8)
            r.obs_before = B.observe(tree, reg)
            if which == 0:
                status = model.set_meta(mn[s], key, val)
                ret = nodes[s].set_meta(key, val)
            elif which in (1, 2):
                if val is None:
                    status = ("undoc", "update_meta-with-None")
                else:
                    status = model.update_meta(mn[s], {key: val}, replace=(which == 2))
                    mine = {key: val}
                    ret = nodes[s].update_meta(mine, replace=(which == 2))
                    # the caller's dict stays the caller's: later edits of it, or of
                    # another node that received the same dict, must not show here
                    other_i = (s + 1) % n
                    if other_i != s:
                        nodes[other_i].update_meta(mine, replace=True)
                        nodes[other_i].set_meta("zz", 1)
                        nodes[other_i].clear_meta()
                    mine["caller"] = 1
            elif which == 3:
                status = model.clear_meta(mn[s], key)
                ret = nodes[s].clear_meta(key)
            else:
                status = model.clear_meta(mn[s], None)
                ret = nodes[s].clear_meta()
            if status[0] == "ok":
                got = nodes[s].get_meta(key, "dflt")
                want = (mn[s].meta or {}).get(key, "dflt")
                if got != want:
                    r.pre_clause = "get_meta"
        elif op == "filter":
            vs = [x["v%d" % i] for i in range(n)]

            def rpred(nd):
                from nutree import SkipBranch

                v = vs[B.token_of(reg, nd)]
                if v == 2:
                    raise SkipBranch
                return v == 1

            status = model.filter(model.root, lambda m_: ("skip" if vs[m_.tok] == 2 else vs[m_.tok] == 1))
            ret = tree.filter(rpred)
        else:
            raise ValueError(op)
    except Exception as e:  # noqa: BLE001
        exc = e
    r.status = status
    r.exc = exc
    r.ret = ret
    if not hasattr(r, "deep_into_self"):
        r.deep_into_self = False
    return r


# ---------------------------------------------------------------------------
# oracles on a step record
# ---------------------------------------------------------------------------
def expected_toks(model):
    return [m.tok for m in model.all_nodes() if m.tok is not None and 0 <= m.tok < 100]


def removed_nodes(r):
    """(nodes, old ids) of pre-state nodes the model says are gone."""
    keep = expected_toks(r.model)
    out, ids = [], []
    for i, nd in enumerate(r.nodes):
        if i not in keep:
            out.append(nd)
            ids.append(r.old_node_ids[i])
    return out, ids


def check_sorted(r):
    """C04 oracle for sort: permutation of the same children with ordered keys
    on every sorted level, other levels untouched."""
    tree, reg = r.tree, r.reg
    levels = r.sorted_levels

    def real_children(m):
        return tree.children if m.tok is None else reg[m.tok].children

    for m in [r.model.root] + r.model.all_nodes():
        got = real_children(m)
        want = m.ch
        if len(got) != len(want):
            return "sort:child-count"
        is_sorted_level = False
        for lv in levels:
            if lv is m:
                is_sorted_level = True
        if is_sorted_level:
            for w in want:  # permutation of the same node objects
                cnt = 0
                for g in got:
                    if g is reg[w.tok]:
                        cnt += 1
                if cnt != 1:
                    return "sort:not-a-permutation"
            for a, b in zip(got, got[1:]):
                if r.sort_reverse:
                    if a.data < b.data:
                        return "sort:order"
                elif a.data > b.data:
                    return "sort:order"
        else:
            for g, w in zip(got, want):
                if g is not reg[w.tok]:
                    return "sort:unsorted-level-changed"
        for g in got:
            if g.parent is not (None if m.tok is None else reg[m.tok]):
                return "sort:parent"
    return ""
