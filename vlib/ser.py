"""Shared pieces for the native-format checks C05 / C12: tree flavours, an
independent encoder of the documented layout (ug_serialize.rst), a
round-trip observation and the stream used with S-json."""

from __future__ import annotations

import io
import json

from vlib.build import build, children_of
from vlib.stubs import Channel

POOL = ["a", "b", "ü"]
KINDS = ["k0", ""]  # the empty kind is a legal kind string
FLAVOURS = ["str", "strids", "obj", "typed", "derived"]
CUSTOM_KEY_MAP = {"type": "t", "key": "y", "data_id": "i", "str": "s", "kind": "k"}
CUSTOM_VALUE_MAP = {"type": ["o", "p"]}


class Obj:
    """Keyed data object (identity hash replaced by a constant)."""

    __slots__ = ("key",)

    def __init__(self, key):
        self.key = key

    def __hash__(self):
        return 7

    def __repr__(self):
        return "Obj"


def obj_calc(tree, data):
    return data.key if isinstance(data, Obj) else hash(data)


def obj_ser(node, data):
    data["type"] = "o"
    data["key"] = node.data.key
    return data


def obj_de(parent, data):
    return Obj(data["key"])


def str_de(parent, data):
    return data["str"]


_DERIVED = {}


def derived_class():
    """A TypedTree subclass using the derived-class mapper style of the guide."""
    if "cls" not in _DERIVED:
        from nutree.typed_tree import TypedTree

        class MyTree(TypedTree):
            DEFAULT_KEY_MAP = dict(TypedTree.DEFAULT_KEY_MAP, type="t", key="y")
            DEFAULT_VALUE_MAP = {"type": ["o", "p"]}

            def calc_data_id(self, data):
                return obj_calc(self, data)

            def serialize_mapper(self, node, data):
                return obj_ser(node, data)

            @staticmethod
            def deserialize_mapper(parent, data):
                return obj_de(parent, data)

        _DERIVED["cls"] = MyTree
    return _DERIVED["cls"]


def params(desc):
    n = len(desc["shape"])
    fl = desc["fl"]
    ps = [("l%d" % i, "sel", 0, 2) for i in range(n)]
    if fl == "strids":
        ps += [("d%d" % i, "sel", 0, 2) for i in range(n)]  # 0 = default id
    if fl in ("typed", "derived"):
        ps += [("k%d" % i, "sel", 0, 1) for i in range(n)]
    ps += [("km", "sel", 0, 2), ("vm", "sel", 0, 2), ("meta", "bool", None, None)]
    return ps


class Src:
    pass


def make_source(desc, x):
    """Build the source tree of the shard's flavour; returns Src or None if the
    labels are not constructible."""
    from nutree import Tree
    from nutree.typed_tree import TypedTree

    shape = tuple(desc["shape"])
    n = len(shape)
    fl = desc["fl"]
    sel = [x["l%d" % i] for i in range(n)]
    s = Src()
    s.shape, s.fl, s.n = shape, fl, n
    s.ids = None
    s.kinds = None
    s.calc = None
    s.save_kw, s.load_kw = {}, {}
    if fl in ("obj", "derived"):
        s.labels = [Obj(k + 1) for k in sel]
        s.datakeys = [k + 1 for k in sel]
    else:
        s.labels = [POOL[k] for k in sel]
        s.datakeys = list(s.labels)
    if fl == "strids":
        s.ids = [None if x["d%d" % i] == 0 else 100 + x["d%d" % i] for i in range(n)]
        s.load_kw = {"mapper": str_de}
    if fl in ("typed", "derived"):
        s.kinds = [KINDS[x["k%d" % i]] for i in range(n)]
    if fl == "obj":
        s.calc = obj_calc
        s.save_kw = {"mapper": obj_ser}
        s.load_kw = {"mapper": obj_de}
    if fl == "derived":
        s.cls = derived_class()
    elif fl == "typed":
        s.cls = TypedTree
    else:
        s.cls = Tree
    try:
        s.tree, s.nodes = build(shape, s.labels, ids=s.ids, kinds=s.kinds, cls=s.cls, calc=s.calc, name="S")
    except Exception:  # noqa: BLE001
        return None
    s.km, s.vm = x["km"], x["vm"]
    s.meta = {"foo": "bar"} if x["meta"] else None
    return s


def option_args(s):
    kw = {}
    if s.km == 1:
        kw["key_map"] = False
    elif s.km == 2:
        kw["key_map"] = dict(CUSTOM_KEY_MAP)
    if s.vm == 1:
        kw["value_map"] = False
    elif s.vm == 2:
        kw["value_map"] = {k: list(v) for k, v in CUSTOM_VALUE_MAP.items()}
    if s.meta:
        kw["meta"] = dict(s.meta)
    return kw


# ---------------------------------------------------------------------------
# independent encoder of the documented layout
# ---------------------------------------------------------------------------
def effective_maps(s):
    typed = s.fl in ("typed", "derived")
    if s.km == 0:
        if s.fl == "derived":
            key_map = {"data_id": "i", "str": "s", "kind": "k", "type": "t", "key": "y"}
        elif typed:
            key_map = {"data_id": "i", "str": "s", "kind": "k"}
        else:
            key_map = {"data_id": "i", "str": "s"}
    elif s.km == 1:
        key_map = {}
    else:
        key_map = dict(CUSTOM_KEY_MAP)
    if s.vm == 0:
        value_map = {"type": ["o", "p"]} if s.fl == "derived" else {}
    elif s.vm == 1:
        value_map = {}
    else:
        value_map = {k: list(v) for k, v in CUSTOM_VALUE_MAP.items()}
    if typed and s.vm != 1 and "kind" not in value_map:
        kinds = []
        for k in s.kinds:
            if k not in kinds:
                kinds.append(k)
        value_map["kind"] = kinds
    return key_map, value_map


def encode(s, hashfn, spell_out_clones=False):
    """The document ug_serialize.rst describes for source s."""
    key_map, value_map = effective_maps(s)
    typed = s.fl in ("typed", "derived")
    header = {"$generator": "nutree/x", "$format_version": "1.0"}
    if key_map:
        header["$key_map"] = key_map
    if value_map:
        header["$value_map"] = value_map
    if s.meta:
        header.update(s.meta)
    entries = []
    first = []  # (data_id, kind, position, data key) of first occurrences of clones
    n = s.n
    ids = [s.nodes[i].data_id for i in range(n)]
    for i in range(n):
        p = s.shape[i]
        pidx = 0 if p < 0 else p + 1
        kind = s.kinds[i] if typed else None
        ref = None
        for did, k, pos, dk in first:
            if did == ids[i]:
                ref = (k, pos, dk)
                break
        # "a repeated occurrence of the same data whose kind equals that of its
        # first occurrence is stored only as that occurrence's position"
        if ref is not None and ref[0] == kind and ref[2] == s.datakeys[i] and not spell_out_clones:
            entries.append([pidx, ref[1]])
            continue
        if ref is None and len([j for j in range(n) if ids[j] == ids[i]]) > 1:
            first.append((ids[i], kind, i + 1, s.datakeys[i]))
        data = s.labels[i]
        if isinstance(data, str):
            custom = ids[i] != hashfn(data)
            if not typed and not custom:
                entries.append([pidx, data])
                continue
            payload = {"str": data}
            if custom and not typed:
                payload["data_id"] = ids[i]
        else:
            payload = {}
            if ids[i] != 7:
                payload["data_id"] = ids[i]
        if typed:
            payload["kind"] = kind
        if isinstance(data, Obj):
            payload["type"] = "o"
            payload["key"] = data.key
        out = {}
        for k, v in payload.items():
            kk = key_map.get(k, k)
            if k in value_map:
                v = value_map[k].index(v)
            out[kk] = v
        entries.append([pidx, out])
    return {"meta": header, "nodes": entries}


def doc_equal(got, want):
    """Writer output vs encoder output (generator: prefix only)."""
    if not isinstance(got, dict) or sorted(got.keys()) != ["meta", "nodes"]:
        return "doc:top-level-keys"
    gm, wm = dict(got["meta"]), dict(want["meta"])
    g = gm.pop("$generator", None)
    wm.pop("$generator")
    if not isinstance(g, str) or not g.startswith("nutree/"):
        return "doc:generator"
    if gm != wm:
        return "doc:header"
    if len(got["nodes"]) != len(want["nodes"]):
        return "doc:node-count"
    for i, (a, b) in enumerate(zip(got["nodes"], want["nodes"])):
        a = list(a)
        if a[0] != b[0]:
            return "doc:parent-index"
        if type(a[1]) is not type(b[1]) or a[1] != b[1]:
            return "doc:payload"
    return ""


def observe_rt(tree):
    """Round-trip observation: pre-order [(parent position, data key, data_id, kind)]."""
    nodes = list(tree)
    out = []
    for nd in nodes:
        par = nd.parent
        ppos = -1
        if par is not None:
            ppos = [k for k, m in enumerate(nodes) if m is par][0]
        d = nd.data
        key = d.key if hasattr(d, "key") else d
        out.append((ppos, key, nd.data_id, getattr(nd, "kind", None)))
    return out


def open_channel(ctx):
    return io.StringIO() if ctx.native else Channel()


def rewind(fp):
    if hasattr(fp, "seek"):
        fp.seek(0)


def read_doc(ctx, fp, stub):
    if ctx.native:
        return json.loads(fp.getvalue())
    return fp.doc


def write_doc(ctx, doc):
    if ctx.native:
        return io.StringIO(json.dumps(doc))
    ch = Channel()
    ch.doc = doc
    return ch
