"""Shard tables and the property-specific oracles over `mutate.step`."""

from vlib import build as B
from vlib import mutate as MU
from vlib.build import shape_str, shapes

FUNCTIONS = [
    "Node.__init__", "Node.add_child", "Node.append_child", "Node.prepend_child", "Node.prepend_sibling",
    "Node.append_sibling", "Node.copy_to", "Node._add_from", "Node.move_to", "Node.remove",
    "Node.remove_children", "Node.sort_children", "Node.set_data", "Node.set_meta", "Node.update_meta",
    "Node.clear_meta", "Node.filter", "Tree.add_child", "Tree.copy_to", "Tree.clear", "Tree.sort", "Tree.filter",
    "Tree._register", "Tree._unregister", "Tree.calc_data_id", "Tree.find_all", "Tree.find_first",
    "TypedNode.__init__", "TypedNode.add_child", "TypedNode.append_child", "TypedNode.prepend_child",
    "TypedNode.prepend_sibling", "TypedNode.append_sibling", "TypedNode.move_to", "TypedTree.add_child",
]
STUBS = ["S-dict (AssocMap for Tree._nodes_by_data_id)", "S-hash (hash(i)==i on the label domain)", "S-fmt (constant Node repr/format)"]
ASSUMPTIONS = [
    "labels, explicit data_ids: integers >= 1 (any value; equal values allowed => clones, equal-comparing non-clones)",
    "pre-states are the trees constructible by public add calls in pre-order for every ordered forest up to the node bound; both root representations for the empty tree",
    "sort is run with key=node.data (the default key formats the data; formatting a symbolic int does not exhaust)",
    "one operation per path (inductive step); histories are covered up to the node bound by induction over the invariant, see DESIGN.md section 4",
]
OTHER_SHAPES = [(), (-1,), (-1, -1), (-1, 0)]


def tier_n(tier):
    return 3 if tier == "quick" else 4


# per-operation node bound of the pre-state: (quick, thorough)
# operations cheap enough for larger pre-states: (quick, thorough) node bound
BIG = {"remove": (4, 5), "remove_children": (4, 5), "clear": (4, 5)}
CAPS = {
    "copy_node": (2, 3),
    "copy_to": (2, 3),
    "add_tree": (2, 3),
    "tree_copy_to": (2, 3),
    "meta": (2, 3),
}


def topo_orders(shape):
    """All creation orders in which parents precede children (first = pre-order)."""
    import itertools

    n = len(shape)
    out = []
    for perm in itertools.permutations(range(n)):
        pos = {v: i for i, v in enumerate(perm)}
        if all(shape[i] < 0 or pos[shape[i]] < pos[i] for i in range(n)):
            out.append(perm)
    out.sort(key=lambda p: p != tuple(range(n)))
    return out


def op_cap(op, tier):
    q, t = BIG.get(op) or CAPS.get(op, (3, 4))
    return q if tier == "quick" else t


def make_shards(tier, ops=None, regimes=("R1", "R3"), typed=True, prefix=""):
    out = []
    for op, minn in MU.OPS.items():
        if ops and op not in ops:
            continue
        for n in range(minn, op_cap(op, tier) + 1):
            for si, sh in enumerate(shapes(n)):
                if n == 5 and si % 3:
                    continue  # every third 5-node shape
                for regime in regimes:
                    if op in ("meta", "filter", "clear", "remove_children") and regime == "R3":
                        continue  # labels/ids are irrelevant to these operations
                    if regime == "R3" and n > (2 if tier == "quick" else 3):
                        continue
                    others = [None]
                    if op in ("add_tree", "tree_copy_to"):
                        if regime == "R3":
                            if n > 1:
                                continue
                            others = [(-1,), (-1, -1)]  # equal data under different ids in source and target
                        else:
                            others = OTHER_SHAPES if n <= 2 else OTHER_SHAPES[:3]
                    for o in others:
                        d = {"name": "%s%s-%s-%s" % (prefix, op, regime, shape_str(sh)), "op": op, "shape": list(sh), "regime": regime}
                        if o is not None:
                            d["other"] = list(o)
                            d["name"] += "+" + shape_str(o)
                            if not o:
                                d["no_twin"] = True  # adding an empty tree never succeeds
                        out.append(d)
    if tier != "quick":
        # pre-states whose registration order (clone lists, node_id map) differs
        # from the tree order, as it does after moves
        for op in ("set_data", "remove", "move", "copy_node", "sort", "filter"):
            if ops and op not in ops:
                continue
            for sh in shapes(3):
                for order in topo_orders(sh)[1:]:
                    out.append({"name": "%s%s-R1-%s-o%s" % (prefix, op, shape_str(sh), "".join(map(str, order))), "op": op, "shape": list(sh), "regime": "R1", "order": list(order)})
    if tier != "quick":
        # two-step histories: a state-shaping first step, then the operation under test
        three = {("move", "move"), ("move", "remove"), ("remove_keep", "add"), ("remove_keep", "move"), ("set_data_wc", "set_data"), ("remove", "add")}
        for first in MU.FIRST_OPS:
            for op in ("add", "move", "remove", "set_data", "copy_node"):
                if ops and op not in ops:
                    continue
                for n in (2, 3):
                    if n == 3 and (first, op) not in three:
                        continue  # sized to keep the thorough tier near 25 min
                    for sh in shapes(n):
                        out.append({"name": "%s2step-%s+%s-%s" % (prefix, first, op, shape_str(sh)), "op": op, "first": first, "shape": list(sh), "regime": "R1", "cost": 15})
    if typed:
        NT = 2 if tier == "quick" else 3
        for op in MU.TYPED_OPS:
            if ops and op not in ops:
                continue
            # (typed 3-node shards of add / copy_node / move did not exhaust in 20 min)
            cap = NT if op not in ("add", "copy_node", "move") else 2
            for n in range(MU.OPS[op], cap + 1):
                for sh in shapes(n):
                    d = {"name": "%styped-%s-%s" % (prefix, op, shape_str(sh)), "op": op, "shape": list(sh), "regime": "R1", "typed": True}
                    if op == "move":
                        d["no_twin"] = True  # typed move_to is documented as unsupported
                    out.append(d)
                    # explicit ids: equal-comparing siblings in typed trees
                    if op in (("copy_node", "prepend_sibling", "append_sibling", "remove") if tier == "quick" else ("add", "copy_node", "prepend_sibling", "append_sibling", "remove")) and 2 <= n <= 2 + (tier != "quick"):
                        d2 = dict(d, regime="R3", name=d["name"].replace("typed-", "typed-R3-"))
                        out.append(d2)
    return out


def bounds(tier):
    N = tier_n(tier)
    return {
        "max_nodes_pre_state": N,
        "max_nodes_per_op": {op: op_cap(op, tier) for op in MU.OPS},
        "max_nodes_R3": 2 if tier == "quick" else 3,
        "max_nodes_typed": 2 if tier == "quick" else 3,
        "other_tree_shapes": [shape_str(o) for o in OTHER_SHAPES],
        "labels": "unbounded ints >= 1",
        "before": "None, False, True, ints -1..n+1, every node",
        "steps": "1 (quick); thorough adds two-step histories (first step in move/remove/remove(keep_children)/set_data(with_clones), pre-state <= 3 nodes) and permuted registration orders",
        "outside": "trees with more nodes; falsy data/ids; histories leaving the node bound",
    }


# ---------------------------------------------------------------------------
def c04_oracle(ctx, desc, x):
    r = MU.step(ctx, desc, x)
    if r.skip:
        return ""
    if r.pre_clause:
        return r.pre_clause
    if r.pre_inv:
        return "builder:" + r.pre_inv
    st = r.status
    if st is None:
        # the model itself was not reached: the real call raised first
        return "harness:no-model-status:%s" % type(r.exc).__name__
    if st[0] == "undoc":
        return ""
    if st[0] == "refuse":
        if r.exc is None:
            return "must-refuse(%s)-but-succeeded" % st[1]
        return ""
    # documented-valid call
    ctx.mark()
    if r.exc is not None:
        if r.deep_into_self and ctx.known("deep-copy-into-own-branch"):
            return ""
        return "valid-call-raised:%s" % type(r.exc).__name__
    if r.sorted_levels is not None:
        c = MU.check_sorted(r)
        if c:
            return c
        return ""
    after = B.observe(r.tree, r.reg)
    c = B.obs_equal(after, r.model.observe())
    if c:
        return "effect:" + c
    # return value
    want = st[1]
    if want is not None and desc["op"] not in ("add_tree", "tree_copy_to"):
        if r.ret is None or r.ret.data_id != want.did or B.token_of(r.reg, r.ret) != -1:
            return "return-value"
    elif desc["op"] not in ("add_tree", "tree_copy_to", "copy_to") and r.ret is not None:
        return "return-value-not-None"
    if r.other is not None:
        other, onodes, obs0 = r.other
        if B.obs_equal(B.observe(other, onodes), obs0):
            return "source-tree-changed"
    return ""


def _prelude(ctx, desc, x):
    r = MU.step(ctx, desc, x)
    if r.skip:
        return r, ""
    if r.pre_clause and not r.pre_clause.startswith("get_meta"):
        return r, r.pre_clause
    if r.pre_inv:
        return r, "builder:" + r.pre_inv
    if r.status is None and r.exc is None:
        return r, "harness:no-status"
    return r, None


def _other_intact(r):
    if r.other is not None:
        other, onodes, obs0 = r.other
        c = B.obs_equal(B.observe(other, onodes), obs0) or B.wf(other)
        if c:
            return "source-tree:" + c
    return ""


def c01_oracle(ctx, desc, x):
    """Well-formed after the step, whether or not it raised."""
    r, early = _prelude(ctx, desc, x)
    if early is not None:
        return early
    if r.exc is None:
        ctx.mark()
    if r.deep_into_self and ctx.known("deep-copy-into-own-branch"):
        return ""
    c = B.wf(r.tree)
    if c:
        return c + ("" if r.exc is None else ":after-%s" % type(r.exc).__name__)
    if r.exc is None and r.status and r.status[0] == "ok" and r.sorted_levels is None:
        rm, ids = MU.removed_nodes(r)
        c = B.removed_gone(r.tree, rm, ids)
        if c:
            return c
    return _other_intact(r) and "wf:" + _other_intact(r)


def c02_oracle(ctx, desc, x):
    """Lookups and clone queries exact after the step."""
    r, early = _prelude(ctx, desc, x)
    if early is not None:
        return early
    if r.exc is None:
        ctx.mark()
    if r.deep_into_self and ctx.known("deep-copy-into-own-branch"):
        return ""
    if B.wf(r.tree):
        return ""  # structural corruption is C01's subject; the walk is meaningless
    probes = []
    # probe ids: the new values and every id present before the step (stale entries)
    r3 = desc.get("regime") == "R3"
    for k in ("D",) if r3 else ("L",):
        if k in x and x[k] != 0:
            probes.append(x[k])
    n = len(desc["shape"])
    for i in range(n):
        probes.append(x["d%d" % i] if r3 else x["l%d" % i])
    c = B.index_exact(r.tree, probes)
    if c:
        return c + ("" if r.exc is None else ":after-%s" % type(r.exc).__name__)
    # data_id rule: explicit id, else callback/hash of data
    w = B.walk(r.tree)
    if r.exc is None and r.status and r.status[0] == "ok":
        exp = {}
        for m in r.model.all_nodes():
            if m.tok is not None and 0 <= m.tok < 100:
                exp[m.tok] = m.did
        for nd, _ in w:
            t = B.token_of(r.reg, nd)
            if t >= 0 and t in exp and nd.data_id != exp[t]:
                return "idx:data_id-rule"
    return ""


def c03_oracle(ctx, desc, x):
    """No duplicate sibling ids after the step; collisions are refused with
    UniqueConstraintError."""
    from nutree import UniqueConstraintError

    r, early = _prelude(ctx, desc, x)
    if early is not None:
        return early
    if r.deep_into_self and ctx.known("deep-copy-into-own-branch"):
        return ""
    if r.status and r.status[0] == "refuse" and r.status[1] in ("unique", "unique+position"):
        ctx.mark()
        if r.exc is None:
            return "uniq:collision-not-refused"
        if r.status[1] == "unique" and not isinstance(r.exc, UniqueConstraintError):
            return "uniq:refused-with-%s" % type(r.exc).__name__
    elif r.exc is None:
        ctx.mark()
    if B.wf(r.tree):
        return ""
    c = B.siblings_unique(r.tree)
    if c:
        return c + ("" if r.exc is None else ":after-%s" % type(r.exc).__name__)
    if r.other is not None and B.siblings_unique(r.other[0]):
        return "uniq:source-tree"
    return ""


def c13_oracle(ctx, desc, x):
    """A refused operation leaves the tree observably unchanged (and sound)."""
    r, early = _prelude(ctx, desc, x)
    if early is not None:
        return early
    if r.exc is None:
        return ""
    ctx.mark()
    if r.deep_into_self and ctx.known("deep-copy-into-own-branch"):
        return ""
    tag = ":after-%s" % type(r.exc).__name__
    c = B.wf(r.tree)
    if c:
        return "refused:" + c + tag
    c = B.obs_equal(B.observe(r.tree, r.reg), r.obs_before)
    if c:
        return "refused:changed:" + c + tag
    c = B.index_exact(r.tree) or B.siblings_unique(r.tree)
    if c:
        return "refused:" + c + tag
    c = _other_intact(r)
    if c:
        return "refused:" + c + tag
    return ""
