"""Shard pool, CrossHair driver, verdicts, replay, known findings, evidence.

A property module (props/cXX.py) provides

    ID, TITLE, FUNCTIONS (nutree functions exercised), STUBS, ASSUMPTIONS, BOUNDS(tier)
    shards(tier)          -> list of picklable shard descriptors (dicts with 'name')
    params(desc)          -> [(name, 'int'|'bool'|'str', lo, hi), ...]
    body(ctx, desc, x)    -> '' if the oracle holds on inputs x, else the failing clause
    concrete_inputs(desc) -> optional list of concrete input dicts for the native
                             validation pass (default: bounds-derived vectors)
    setup_symbolic(desc)  -> optional, install extra stubs in the worker

The deciding step for every shard is CrossHair's verdict on the generated
harness function: CONFIRMED means z3 has shown that no input inside the
precondition takes an unexplored path and every explored path satisfied the
oracle.  Counterexamples are replayed natively before anything is reported.
"""

from __future__ import annotations

import hashlib
import importlib
import json
import linecache
import multiprocessing as mp
import os
import subprocess
import sys
import time
import traceback

VERIF = os.path.dirname(os.path.dirname(os.path.abspath(__file__)))
REPO = os.environ.get("VERIF_REPO", "/repo")
EXIT_HARNESS_ERROR = 3


# ---------------------------------------------------------------------------
# context handed to harness bodies
# ---------------------------------------------------------------------------
class Ctx:
    def __init__(self, native, kf_active=(), twin=False):
        self.native = native
        self.kf_active = set(kf_active)
        self.twin = twin
        self.nontrivial = False
        self.known_hits = []
        self.note = None

    def mark(self):
        """The operation under test ran and did something (non-trivial path)."""
        self.nontrivial = True

    def known(self, key):
        """True if known finding `key` is listed and still reproduces."""
        if key in self.kf_active:
            self.known_hits.append(key)
            return True
        return False


def untraced(ctx):
    """Context manager that suspends CrossHair's tracing for a section whose
    inputs are all concrete at that point (bisected selectors, pool values):
    symbolic execution adds nothing there, only interpretive overhead."""
    import contextlib

    if ctx.native:
        return contextlib.nullcontext()
    from crosshair.tracers import NoTracing

    return NoTracing()


# ---------------------------------------------------------------------------
# known findings
# ---------------------------------------------------------------------------
def load_known_findings(path=None):
    """Parse /verif/known_findings.txt.

    finding: property=<id> key=<key> desc=<json> inputs=<json> :: <what fails>
    fixed: property=<id> <commit> <what failed>
    """
    path = path or os.path.join(VERIF, "known_findings.txt")
    findings, fixed = [], []
    if not os.path.exists(path):
        return findings, fixed
    for line in open(path, encoding="utf8"):
        line = line.strip()
        if not line or line.startswith("#"):
            continue
        if line.startswith("fixed:"):
            fixed.append(line)
            continue
        if line.startswith("finding:"):
            head, _, what = line[len("finding:"):].partition("::")
            rec = {"what": what.strip()}
            # key=value tokens; desc= and inputs= hold JSON without spaces
            for tok in head.split():
                k, _, v = tok.partition("=")
                rec[k] = v
            rec["desc"] = json.loads(rec.get("desc", "{}"))
            rec["inputs"] = json.loads(rec.get("inputs", "{}"))
            findings.append(rec)
    return findings, fixed


# ---------------------------------------------------------------------------
# harness generation
# ---------------------------------------------------------------------------
_STATE = {"paths": 0, "nontrivial": 0, "last_fail": None, "known_hits": {}, "z3_checks": 0, "z3_time": 0.0}
_HSEQ = [0]


def _pre_expr(params):
    parts = []
    for name, kind, lo, hi in params:
        if kind in ("int", "sel"):
            if lo is not None and hi is not None:
                parts.append("%d <= %s <= %d" % (lo, name, hi))
            elif lo is not None:
                parts.append("%d <= %s" % (lo, name))
            elif hi is not None:
                parts.append("%s <= %d" % (name, hi))
        elif kind == "str":
            lo = 0 if lo is None else lo
            parts.append("%d <= len(%s) <= %d" % (lo, name, hi))
    return " and ".join(parts) or "True"


def make_harness(mod, desc, kf_active, twin=False):
    params = mod.params(desc)
    tmap = {"int": "int", "sel": "int", "bool": "bool", "str": "str", "float": "float"}
    sig = ", ".join("%s: %s" % (n, tmap[k]) for n, k, _, _ in params)
    dct = ", ".join("%r: %s" % (n, n) for n, _, _, _ in params)
    extra_pre = getattr(mod, "extra_pre", None)
    pre = _pre_expr(params)
    if extra_pre:
        e = extra_pre(desc)
        if e:
            pre = pre + " and " + e
    src = (
        "def h(%s) -> bool:\n"
        '    """\n'
        "    pre: %s\n"
        "    post: _\n"
        '    """\n'
        "    return _run({%s})\n"
    ) % (sig, pre, dct)
    bool_names = [n for n, k, _, _ in params if k == "bool"]
    all_concrete = bool(params) and all(k in ("sel", "bool") for _, k, _, _ in params) and not getattr(mod, "KEEP_TRACING", False)
    sel_names = [(n, lo, hi) for n, k, lo, hi in params if k == "sel"]

    def _run(x):
        _STATE["paths"] += 1
        for b in bool_names:  # native bools: C APIs reject symbolic flags
            x[b] = True if x[b] else False
        # small bounded selectors are made concrete by bisection on solver-decided
        # comparisons (a plain realize() of a precondition-bounded int makes
        # CrossHair "prematurely realize" it to out-of-range model values)
        for b, lo, hi in sel_names:
            v = x[b]
            while lo < hi:
                mid = (lo + hi) // 2
                if v <= mid:
                    hi = mid
                else:
                    lo = mid + 1
            x[b] = lo
        ctx = Ctx(native=False, kf_active=kf_active, twin=twin)
        try:
            if all_concrete:
                # every input is a bisected selector or a native bool: nothing
                # symbolic can reach the body, so it runs without the tracing
                # interpreter (the solver still decides which selector values exist)
                from crosshair.tracers import NoTracing

                with NoTracing():
                    clause = mod.body(ctx, desc, x)
            else:
                clause = mod.body(ctx, desc, x)
        except Exception as e:  # noqa: BLE001 - CrossHair control flow is BaseException
            clause = "harness-exception:%s:%s" % (type(e).__name__, str(e)[:80])
        if ctx.nontrivial:
            _STATE["nontrivial"] += 1
        for k in ctx.known_hits:
            _STATE["known_hits"][k] = _STATE["known_hits"].get(k, 0) + 1
        if twin:
            # reachability twin: "the op never does anything" must be refuted
            if ctx.nontrivial and not clause:
                return False
            return True
        if clause:
            from crosshair.core import deep_realize

            try:
                real = deep_realize(x)
            except Exception:  # noqa: BLE001
                real = None
            _STATE["last_fail"] = (real, str(clause))
            return False
        return True

    _HSEQ[0] += 1
    fn = "<harness-%d>" % _HSEQ[0]
    linecache.cache[fn] = (len(src), None, src.splitlines(True), fn)
    g = {"_run": _run}
    exec(compile(src, fn, "exec"), g)
    return g["h"], params


def _install_z3_counter():
    import z3

    if getattr(z3.Solver, "_vp_wrapped", False):
        return
    orig = z3.Solver.check

    def check(self, *a):
        t = time.perf_counter()
        try:
            return orig(self, *a)
        finally:
            _STATE["z3_checks"] += 1
            _STATE["z3_time"] += time.perf_counter() - t

    z3.Solver.check = check
    z3.Solver._vp_wrapped = True


def _tune_crosshair():
    """Disable CrossHair's optional short-circuiting of contracted callees
    (its patched repr/hash carry contracts): it replaces the call by an
    unconstrained symbolic result on a random subset of paths, which leaves
    those paths UNKNOWN and the path tree never exhausts.  Semantics are
    unchanged: the callee is simply always executed."""
    import crosshair.core as cc

    if getattr(cc, "_vp_no_shortcircuit", False):
        return
    orig = cc.consider_shortcircuit

    def consider_shortcircuit(fn, sig, bound, subconditions, allow_interpretation):
        if allow_interpretation:
            return None
        return orig(fn, sig, bound, subconditions, allow_interpretation)

    cc.consider_shortcircuit = consider_shortcircuit
    cc._vp_no_shortcircuit = True


def _reset_state():
    _STATE.update(paths=0, nontrivial=0, last_fail=None, known_hits={}, z3_checks=0, z3_time=0.0)


def _analyze(fn, cond_timeout, path_timeout):
    from crosshair.core_and_libs import analyze_function, run_checkables
    from crosshair.options import AnalysisKind, AnalysisOptionSet

    opts = AnalysisOptionSet(
        per_condition_timeout=cond_timeout,
        per_path_timeout=path_timeout,
        report_all=True,
        analysis_kind=[AnalysisKind.PEP316],
    )
    msgs = run_checkables(analyze_function(fn, opts))
    return [(m.state.name, m.message) for m in msgs]


def _jsonable(o):
    if isinstance(o, dict):
        return {str(k): _jsonable(v) for k, v in o.items()}
    if isinstance(o, (list, tuple)):
        return [_jsonable(v) for v in o]
    if isinstance(o, (str, int, float, bool)) or o is None:
        return o
    return repr(o)


def run_shard(args):
    """Worker entry: one CrossHair condition for one shard (+ its twin)."""
    prop, desc, kf_active, cond_timeout, path_timeout, do_twin = args
    t0 = time.time()
    out = {"name": desc["name"], "desc": desc}
    try:
        sys.path.insert(0, VERIF) if VERIF not in sys.path else None
        mod = importlib.import_module("props." + prop.lower())
        from vlib import stubs

        st = getattr(mod, "STUBS_INSTALL", {"symbolic": True, "fmt": True})
        if st.get("symbolic", True):
            stubs.install_symbolic(fmt=st.get("fmt", True))
        if hasattr(mod, "setup_symbolic"):
            mod.setup_symbolic(desc)
        _install_z3_counter()
        _tune_crosshair()
        _reset_state()
        fn, params = make_harness(mod, desc, kf_active)
        msgs = _analyze(fn, cond_timeout, path_timeout)
        states = [s for s, _ in msgs]
        out.update(
            paths=_STATE["paths"],
            nontrivial=_STATE["nontrivial"],
            z3_checks=_STATE["z3_checks"],
            z3_time=round(_STATE["z3_time"], 3),
            known_hits=dict(_STATE["known_hits"]),
            messages=[m[:300] for _, m in msgs],
        )
        if states == ["CONFIRMED"]:
            out["verdict"] = "CONFIRMED"
        elif any(s in ("POST_FAIL", "EXEC_ERR", "POST_ERR") for s in states):
            out["verdict"] = "COUNTEREXAMPLE"
            lf = _STATE["last_fail"]
            out["cex"] = _jsonable(lf[0]) if lf else None
            out["clause"] = lf[1] if lf else "crosshair:" + ";".join(m for _, m in msgs)[:200]
        else:
            out["verdict"] = "INCONCLUSIVE"
            out["reason"] = ";".join("%s:%s" % (s, m[:120]) for s, m in msgs) or "no-verdict"
        # reachability twin
        if do_twin and out["verdict"] == "CONFIRMED" and not desc.get("no_twin"):
            _reset_state()
            fn2, _ = make_harness(mod, desc, kf_active, twin=True)
            m2 = _analyze(fn2, min(cond_timeout, 60), path_timeout)
            s2 = [s for s, _ in m2]
            out["twin"] = "REACHED" if "POST_FAIL" in s2 else ("VACUOUS" if s2 == ["CONFIRMED"] else "UNKNOWN")
            out["twin_paths"] = _STATE["paths"]
    except BaseException as e:  # noqa: BLE001
        out["verdict"] = "INCONCLUSIVE"
        out["reason"] = "worker-exception:%s:%s" % (type(e).__name__, str(e)[:200])
        out["trace"] = traceback.format_exc()[-1500:]
    out["wall"] = round(time.time() - t0, 2)
    return out


# ---------------------------------------------------------------------------
# native execution (replay / validation): fresh interpreter, no stubs
# ---------------------------------------------------------------------------
def native_python():
    p = os.environ.get("VERIF_NATIVE_PY", "/venv/bin/python")
    return p if os.path.exists(p) else sys.executable


def native_run(prop, jobs, kf_active=(), timeout=600):
    """Run body natively for a list of (desc, inputs); returns list of clauses
    ('' = oracle holds, str = failing clause, None = crashed)."""
    if not jobs:
        return []
    payload = json.dumps({"prop": prop, "jobs": [[d, x] for d, x in jobs], "kf": list(kf_active)})
    env = dict(os.environ)
    env["PYTHONPATH"] = REPO + os.pathsep + VERIF
    env["PYTHONHASHSEED"] = env.get("PYTHONHASHSEED", "0")
    env.pop("PYTHONSTARTUP", None)
    r = subprocess.run(
        [native_python(), "-m", "vlib.native"],
        input=payload,
        capture_output=True,
        text=True,
        env=env,
        cwd=VERIF,
        timeout=timeout,
    )
    if r.returncode != 0:
        sys.stderr.write(r.stderr[-2000:])
        return [None] * len(jobs)
    return json.loads(r.stdout.strip().splitlines()[-1])


def default_concrete_inputs(mod, desc, seed):
    """Bounds-derived concrete vectors for the native validation pass."""
    import random

    rnd = random.Random(hash((desc["name"], seed)) & 0xFFFFFFFF)
    params = mod.params(desc)
    out = []
    for mode in ("lo", "hi", "rnd", "rnd", "rnd", "rnd"):
        x = {}
        for name, kind, lo, hi in params:
            if kind in ("int", "sel"):
                l = lo if lo is not None else -3
                h = hi if hi is not None else (l + 6)
                x[name] = l if mode == "lo" else h if mode == "hi" else rnd.randint(l, h)
            elif kind == "bool":
                x[name] = False if mode == "lo" else True if mode == "hi" else rnd.random() < 0.5
            elif kind == "str":
                l = lo or 0
                ln = l if mode == "lo" else hi if mode == "hi" else rnd.randint(l, hi)
                x[name] = "".join(rnd.choice("ab│ ─") for _ in range(ln))
        out.append(x)
    return out


# ---------------------------------------------------------------------------
# main driver
# ---------------------------------------------------------------------------
def run_property(prop, tier="quick", seed=0, only=None, jobs=None, verbose=False):
    t0 = time.time()
    sys.path.insert(0, VERIF) if VERIF not in sys.path else None
    mod = importlib.import_module("props." + prop.lower())
    shards = mod.shards(tier)
    if only:
        shards = [s for s in shards if only in s["name"]]
    import random

    random.Random(seed).shuffle(shards)  # VERIF_SEED only permutes shard order
    shards.sort(key=lambda d: -(len(d.get("shape", ())) * 10 + len(d.get("other", ())) * 5 + d.get("cost", 0)))  # long shards first
    cond_to, path_to = mod.TIMEOUTS.get(tier, (120, 20)) if hasattr(mod, "TIMEOUTS") else (120, 20)

    # --- known findings: which listed findings still reproduce natively?
    findings, fixed = load_known_findings()
    mine = [f for f in findings if f.get("property") == prop]
    kf_active = []
    if mine:
        res = native_run(prop, [(f["desc"], f["inputs"]) for f in mine], kf_active=())
        for f, clause in zip(mine, res):
            if clause:  # still fails on the real code with findings disabled
                kf_active.append(f["key"])
                print("KNOWN-FINDING: property=%s %s [%s] (%s)" % (prop, f["what"], f["key"], clause))
            elif clause is None:
                print("HARNESS-ERROR: known-finding example crashed natively: %s" % f["key"])
                return EXIT_HARNESS_ERROR
    kf_active = sorted(set(kf_active))

    # --- native validation pass (stub validation + harness sanity)
    val_jobs = []
    for d in shards:
        ci = mod.concrete_inputs(d) if hasattr(mod, "concrete_inputs") else default_concrete_inputs(mod, d, seed)
        nval = 2 if tier == "quick" else 6
        for x in ci[:nval]:
            val_jobs.append((d, x))
    val_res = native_run(prop, val_jobs, kf_active=kf_active) if val_jobs else []
    native_fail = [(d, x, c) for (d, x), c in zip(val_jobs, val_res) if c]
    native_crash = [(d, x) for (d, x), c in zip(val_jobs, val_res) if c is None]
    if native_crash:
        print("HARNESS-ERROR: native validation crashed for %s" % native_crash[0][0]["name"])
        return EXIT_HARNESS_ERROR

    # --- symbolic run
    nproc = jobs or int(os.environ.get("VERIF_JOBS", "0")) or min(16, os.cpu_count() or 4)
    do_twin = True
    args = [(prop, d, kf_active, cond_to, path_to, do_twin) for d in shards]
    results = []
    if nproc == 1 or len(args) == 1:
        for a in args:
            results.append(run_shard(a))
    else:
        ctx = mp.get_context("fork")
        with ctx.Pool(min(nproc, len(args)), maxtasksperchild=8) as pool:
            for r in pool.imap_unordered(run_shard, args, chunksize=1):
                results.append(r)
                if verbose:
                    print("  shard %-40s %-14s paths=%-5s wall=%ss %s" % (r["name"], r["verdict"], r.get("paths"), r["wall"], r.get("clause", r.get("reason", ""))[:80]))
    results.sort(key=lambda r: r["name"])

    # --- counterexamples: replay natively before reporting
    repdir = os.environ.get("VERIF_REPLAY_DIR") or os.path.join(VERIF, "replays")
    os.makedirs(repdir, exist_ok=True)
    violations, harness_errors, inconclusive = [], [], []
    cex = [r for r in results if r["verdict"] == "COUNTEREXAMPLE"]
    for d, x, c in native_fail:  # failures of the native validation vectors count too
        cex.append({"name": d["name"], "desc": d, "cex": x, "clause": c, "from_validation": True})
    if cex:
        rep = native_run(prop, [(r["desc"], r["cex"]) for r in cex if r.get("cex") is not None], kf_active=kf_active)
        it = iter(rep)
        for r in cex:
            if r.get("cex") is None:
                harness_errors.append((r["name"], "counterexample without realised inputs: %s" % r.get("clause")))
                continue
            clause = next(it)
            if clause:
                h = hashlib.sha1(json.dumps([r["desc"], r["cex"]], sort_keys=True).encode()).hexdigest()[:10]
                path = os.path.join(repdir, "%s-%s.json" % (prop, h))
                with open(path, "w") as fp:
                    json.dump({"property": prop, "desc": r["desc"], "inputs": r["cex"], "clause": clause, "symbolic_clause": r.get("clause")}, fp, indent=1)
                violations.append((r["name"], clause, path))
            else:
                harness_errors.append((r["name"], "symbolic counterexample %s (%s) does not reproduce natively" % (json.dumps(r["cex"]), r.get("clause"))))
    for r in results:
        if r["verdict"] == "INCONCLUSIVE":
            inconclusive.append((r["name"], r.get("reason", "")))
        if r.get("twin") == "VACUOUS" and getattr(mod, "TWIN_REQUIRED", True):
            harness_errors.append((r["name"], "reachability twin CONFIRMED: harness is vacuous"))
    if not getattr(mod, "TWIN_REQUIRED", True) and results and not any(r.get("twin") == "REACHED" for r in results):
        harness_errors.append(("*", "no shard reached a non-trivial path"))

    # --- evidence
    confirmed = [r for r in results if r["verdict"] == "CONFIRMED"]
    paths = sum(r.get("paths", 0) for r in results)
    nontriv = sum(r.get("nontrivial", 0) for r in results)
    z3c = sum(r.get("z3_checks", 0) for r in results)
    z3t = round(sum(r.get("z3_time", 0) for r in results), 2)
    known_hits = {}
    for r in results:
        for k, v in r.get("known_hits", {}).items():
            known_hits[k] = known_hits.get(k, 0) + v
    samples = []
    for (d, x), c in list(zip(val_jobs, val_res))[:3]:
        samples.append({"shard": d["name"], "inputs": x, "native_result": c or "oracle holds"})
    for r in results[:3]:
        samples.append({"shard": r["name"], "verdict": r["verdict"], "paths": r.get("paths"), "params": [list(p) for p in mod.params(r["desc"])]})
    wall = round(time.time() - t0, 2)
    bounds = mod.BOUNDS(tier) if callable(getattr(mod, "BOUNDS", None)) else getattr(mod, "BOUNDS", {})
    ev = {
        "property_id": prop,
        "tier": tier,
        "seed": seed,
        "level": "model_checking",
        "wall_s": wall,
        "violations": len(violations),
        "assumptions": list(getattr(mod, "ASSUMPTIONS", [])) + [
            "CrossHair 0.0.110 models Python semantics faithfully and reports CONFIRMED only when the path tree is exhausted",
            "symbolic runs use CPython 3.11 (python3-vt), replays and validation use %s" % native_python(),
        ],
        "coverage": {
            "states": max(paths, 1),
            "transitions": max(z3c, 1),
            "traces_validated_against_impl": len([c for c in val_res if c is not None]),
            "samples": samples,
            "exhaustive": bool(results) and len(confirmed) == len(results) and not harness_errors,
            "evaluations": max(paths, 1),
            "distinct_nontrivial": nontriv,
            "rule": "one evaluation = one execution path of the real nutree code explored symbolically by CrossHair (its path condition is a distinct equivalence class of inputs); non-trivial = the operation under test executed and was not refused/no-op",
            "technique": "symbolic execution of the real nutree functions with CrossHair/z3; per shard verdict CONFIRMED = all paths exhausted within bounds",
            "engine": "crosshair-tool 0.0.110 + z3",
            "functions_encoded": list(getattr(mod, "FUNCTIONS", [])),
            "bounds": bounds,
            "stubs": list(getattr(mod, "STUBS", [])),
            "shards": len(results),
            "shards_confirmed": len(confirmed),
            "queries_discharged": z3c,
            "solver_time_s": z3t,
            "twins_reached": len([r for r in results if r.get("twin") == "REACHED"]),
            "inconclusive": [{"shard": n, "reason": why[:200]} for n, why in inconclusive],
            "known_findings_active": kf_active,
            "known_finding_paths": known_hits,
            "counterexamples_replayed": len(cex),
            "per_shard": [
                {k: r.get(k) for k in ("name", "verdict", "paths", "nontrivial", "z3_checks", "z3_time", "wall", "twin")}
                for r in results
            ],
            "source_digest": repo_digest(),
        },
    }
    evdir = os.environ.get("VERIF_EVIDENCE_DIR") or os.path.join(VERIF, "evidence")
    os.makedirs(evdir, exist_ok=True)
    with open(os.path.join(evdir, "%s.json" % prop), "w") as fp:
        json.dump(ev, fp, indent=1)

    # --- report
    print(
        "%s tier=%s shards=%d confirmed=%d paths=%d nontrivial=%d z3_queries=%d solver_s=%s wall=%ss"
        % (prop, tier, len(results), len(confirmed), paths, nontriv, z3c, z3t, wall)
    )
    for n, why in inconclusive:
        print("INCONCLUSIVE shard=%s %s" % (n, why[:300]))
    for n, why in harness_errors:
        print("HARNESS-ERROR shard=%s %s" % (n, why[:400]))
    seen = set()
    for n, clause, path in violations:
        if path in seen or (n, clause) in seen:
            continue
        seen.add(path)
        seen.add((n, clause))
        print("VIOLATION property=%s replay=%s shard=%s clause=%s" % (prop, path, n, clause))
    if violations:
        return 1
    if harness_errors:
        return EXIT_HARNESS_ERROR
    if inconclusive and os.environ.get("VERIF_STRICT") == "1":
        return 4
    return 0


def repo_digest():
    h = hashlib.sha1()
    base = os.path.join(REPO, "nutree")
    for fn in sorted(os.listdir(base)):
        if fn.endswith(".py"):
            with open(os.path.join(base, fn), "rb") as fp:
                h.update(fn.encode())
                h.update(fp.read())
    return h.hexdigest()


def replay_file(prop, path):
    rec = json.load(open(path))
    findings, _ = load_known_findings()
    res = native_run(prop, [(rec["desc"], rec["inputs"])], kf_active=())
    clause = res[0]
    if clause:
        print("VIOLATION property=%s replay=%s clause=%s" % (prop, path, clause))
        return 1
    if clause is None:
        print("HARNESS-ERROR replay crashed")
        return EXIT_HARNESS_ERROR
    print("replay: oracle holds on %s" % path)
    return 0
