"""Native (no CrossHair, no stubs) execution of harness bodies.

Reads {"prop":..., "jobs":[[desc, inputs],...], "kf":[...]} from stdin and
prints a JSON list of clauses ('' = oracle holds).  Runs under the repository's
own interpreter so that a counterexample is only reported if it reproduces on
the real runtime with the real dict/hash/set/json.
"""

import importlib
import json
import sys
import traceback


def main():
    payload = json.load(sys.stdin)
    from vlib.engine import Ctx

    mod = importlib.import_module("props." + payload["prop"].lower())
    if hasattr(mod, "setup_native"):
        mod.setup_native()
    out = []
    for desc, x in payload["jobs"]:
        ctx = Ctx(native=True, kf_active=payload.get("kf", ()))
        try:
            clause = mod.body(ctx, desc, dict(x))
        except Exception as e:  # noqa: BLE001
            clause = "harness-exception:%s:%s" % (type(e).__name__, str(e)[:80])
            if "--trace" in sys.argv:
                traceback.print_exc()
        out.append(clause or "")
    print(json.dumps(out))


if __name__ == "__main__":
    main()
