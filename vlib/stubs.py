"""Stubs and monitors applied to nutree from outside (no source hooks).

Every stub listed here is part of the claim of the checks that use it
(DESIGN.md 3.4).  `install_symbolic()` is called once per worker process of a
symbolic run; native replays never call it.
"""

from __future__ import annotations


# ---------------------------------------------------------------------------
# S-dict / S-set: association containers that compare keys with `==` only
# ---------------------------------------------------------------------------
class AssocMap:
    """Insertion-ordered mapping with `==` key lookup and no hashing.

    Faithful to `dict` for keys whose hash/eq are consistent (int, str); used
    for `Tree._nodes_by_data_id` so that symbolic data_ids are never realised.
    """

    __slots__ = ("_k", "_v")

    def __init__(self, other=None):
        self._k = []
        self._v = []
        if other is not None:
            for k, v in other.items():
                self[k] = v

    def _find(self, key):
        ks = self._k
        i = 0
        n = len(ks)
        while i < n:
            if ks[i] == key:
                return i
            i += 1
        return -1

    def __getitem__(self, key):
        i = self._find(key)
        if i < 0:
            raise KeyError(key)
        return self._v[i]

    def __setitem__(self, key, value):
        i = self._find(key)
        if i < 0:
            self._k.append(key)
            self._v.append(value)
        else:
            self._v[i] = value

    def __delitem__(self, key):
        i = self._find(key)
        if i < 0:
            raise KeyError(key)
        del self._k[i]
        del self._v[i]

    def __contains__(self, key):
        return self._find(key) >= 0

    def get(self, key, default=None):
        i = self._find(key)
        return default if i < 0 else self._v[i]

    def pop(self, key, *default):
        i = self._find(key)
        if i < 0:
            if default:
                return default[0]
            raise KeyError(key)
        v = self._v[i]
        del self._k[i]
        del self._v[i]
        return v

    def setdefault(self, key, default=None):
        i = self._find(key)
        if i < 0:
            self._k.append(key)
            self._v.append(default)
            return default
        return self._v[i]

    def __len__(self):
        return len(self._k)

    def __iter__(self):
        return iter(list(self._k))

    def keys(self):
        return list(self._k)

    def values(self):
        return list(self._v)

    def items(self):
        return list(zip(self._k, self._v))

    def __bool__(self):
        return bool(self._k)

    def copy(self):
        return AssocMap(self)

    def __repr__(self):
        return "AssocMap(%r)" % (self.items(),)


class AssocSet:
    """List-backed set with `==` membership (stub for `set` in nutree.diff)."""

    __slots__ = ("_k",)

    def __init__(self, it=()):
        self._k = []
        for x in it:
            self.add(x)

    def add(self, x):
        for k in self._k:
            if k == x:
                return
        self._k.append(x)

    def __contains__(self, x):
        for k in self._k:
            if k == x:
                return True
        return False

    def __iter__(self):
        return iter(list(self._k))

    def __len__(self):
        return len(self._k)

    def __bool__(self):
        return bool(self._k)

    def discard(self, x):
        for i, k in enumerate(self._k):
            if k == x:
                del self._k[i]
                return

    def __repr__(self):
        return "AssocSet(%r)" % (self._k,)


# ---------------------------------------------------------------------------
# S-hash
# ---------------------------------------------------------------------------
def sym_hash(d):
    """hash() for the R1 domain: identity on ints in [0, 2**61-1), else the
    type's own __hash__ (never the builtin `hash`, which CrossHair contracts)."""
    if isinstance(d, int):
        return d
    return type(d).__hash__(d)


# ---------------------------------------------------------------------------
# S-json: a channel that passes the normalised structure through a file object
# ---------------------------------------------------------------------------
def json_normalise(obj):
    """What a JSON dump/load round trip does to the structures nutree writes:
    tuples become lists; dict keys must be str; scalars stay."""
    if isinstance(obj, (list, tuple)):
        return [json_normalise(x) for x in obj]
    if isinstance(obj, dict):
        out = {}
        for k, v in obj.items():
            if not isinstance(k, str):
                raise TypeError("JSON object keys must be str in this stub: %r" % (k,))
            out[k] = json_normalise(v)
        return out
    if obj is None or isinstance(obj, (str, int, float, bool)):
        return obj
    raise TypeError("Object of type %s is not JSON serializable" % type(obj).__name__)


class Channel:
    """Stands for an open text stream; S-json stores the document on it."""

    def __init__(self):
        self.doc = None
        self.text = []

    def write(self, s):
        self.text.append(s)

    def read(self):
        return "".join(self.text)


class JsonStub:
    """Replacement for the `json` module inside nutree.tree."""

    def __init__(self):
        self.dumped = []

    def dump(self, obj, fp, **kw):
        doc = json_normalise(obj)
        self.dumped.append(doc)
        fp.doc = doc

    def load(self, fp):
        return json_normalise(fp.doc)  # fresh copy, as a parser would build


# ---------------------------------------------------------------------------
# installation
# ---------------------------------------------------------------------------
_INSTALLED = {}


def install_symbolic(fmt=True):
    """Install S-dict, S-hash, S-set, deep-realize identity (+ S-fmt)."""
    import nutree.diff
    import nutree.node
    import nutree.tree
    from nutree.node import Node
    from nutree.tree import Tree

    if "init" not in _INSTALLED:
        orig_init = Tree.__init__

        def _init(self, *a, **kw):
            orig_init(self, *a, **kw)
            self._nodes_by_data_id = AssocMap()

        _init.__wrapped__ = orig_init
        Tree.__init__ = _init
        _INSTALLED["init"] = orig_init

        nutree.tree.hash = sym_hash
        nutree.node.hash = sym_hash
        nutree.diff.set = AssocSet

        ident = lambda self, memo: self  # noqa: E731
        Node.__ch_deep_realize__ = ident
        Tree.__ch_deep_realize__ = ident

    if fmt and "fmt" not in _INSTALLED:
        from nutree.typed_tree import TypedNode

        _INSTALLED["fmt"] = (Node.__repr__, TypedNode.__repr__)
        Node.__repr__ = lambda self: "Node<...>"
        TypedNode.__repr__ = lambda self: "TypedNode<...>"
        Node.__format__ = lambda self, spec: "Node<...>"
        Tree.__repr__ = lambda self: "Tree<...>"


def install_json_stub():
    import nutree.tree

    stub = JsonStub()
    nutree.tree.json = stub
    return stub
