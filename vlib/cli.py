import argparse
import os
import sys

sys.path.insert(0, os.path.dirname(os.path.dirname(os.path.abspath(__file__))))

from vlib import engine  # noqa: E402


def main():
    ap = argparse.ArgumentParser()
    ap.add_argument("prop")
    ap.add_argument("--tier", default=os.environ.get("VERIF_TIER", "quick"))
    ap.add_argument("--replay")
    ap.add_argument("--only")
    ap.add_argument("-j", type=int, default=None)
    ap.add_argument("-v", action="store_true")
    a = ap.parse_args()
    import importlib

    mod = importlib.import_module("props." + a.prop.lower())
    seed = int(os.environ.get("VERIF_SEED", "0") or 0)
    if hasattr(mod, "run_custom"):
        if a.replay:
            sys.exit(mod.replay_custom(a.replay))
        sys.exit(mod.run_custom(a.tier, seed, only=a.only, verbose=a.v))
    if a.replay:
        sys.exit(engine.replay_file(a.prop, a.replay))
    sys.exit(engine.run_property(a.prop, a.tier, seed, only=a.only, jobs=a.j, verbose=a.v))


if __name__ == "__main__":
    main()
